"""Exact step-law exploration of the Gillespie family (C01, C02, C03, C15, behavioural half of C16).

A model object provides:
  run(rng, full)         call the simulator (forking source already installed); full=True -> full-data object
  events(out)            ordered [(time, node, new_status, source_or_None)] of a full-data output (after tmin)
  rows(out)              (times list, list of count tuples) of an array-mode output
  counts(state)          count tuple of a ground-truth state, aligned with rows()
  oracle(state)          {(node, new_status, source): rate} enabled events (independent of EoN)
  apply(state, key)      next ground-truth state
  init, tmin, tmax, has_source (False if the output carries no source information)
"""
from . import forkrng
from .runner import Failure, HarnessError, exc_signature

TOL = 1e-9


def event_times(tmin, k):
    t = tmin
    out = []
    for i in range(k + 1):
        t = t + forkrng.DELAYS[i % len(forkrng.DELAYS)]
        out.append(t)
    return out


class TreeStats(object):
    def __init__(self):
        self.levels = 0         # (history, step) pairs whose law was checked
        self.histories = 0      # complete histories reached
        self.sim_calls = 0
        self.max_err = 0.0
        self.pruned = 0.0
        self.flags = set()
        self.sample = None


def _fmt(d):
    return '{' + ', '.join('%r: %.6g' % (k, v) for k, v in sorted(d.items(), key=repr)) + '}'


def explore(model, name, walk=None, max_depth=12, max_levels=5000, check_arrays=True, observe=None):
    """Walk (walk = list of ints) or exhaustively explore (walk=None) the history tree of `model`.
    Returns (failures, stats)."""
    fails = []
    stats = TreeStats()
    walk = list(walk) if walk is not None else None

    def rec(prefix, state, k, hist):
        if fails or stats.levels >= max_levels:
            return
        times = event_times(model.tmin, k)
        t_k = times[k]
        oracle = {key: r for key, r in model.oracle(state).items() if r > 0}
        total = sum(oracle.values())
        expect_end = (total <= 0) or not (t_k < model.tmax)
        if k >= max_depth:
            stats.histories += 1
            if observe:
                observe(hist, state, stats)
            return
        leaves = forkrng.enumerate_paths(lambda rng: model.run(rng, True), prefix, max_clocks=k + 1)
        stats.sim_calls += len(leaves)
        stats.levels += 1
        for lf in leaves:
            if lf.kind == 'error':
                fails.append(Failure('%s:exception:%s' % (name, exc_signature(lf.out)),
                                     'after history %r the simulator raised %r (state %r, enabled total rate %r, tmax %r)'
                                     % (hist, lf.out, state, total, model.tmax)))
                return
        done = [lf for lf in leaves if lf.kind == 'done']
        # clock
        lf0 = done[0] if done else leaves[0]
        if total > 0 and k > 0 or (total > 0 and k == 0):
            if len(lf0.clocks) <= k:
                fails.append(Failure('%s:clock-missing' % name,
                                     'after history %r total rate is %r but no exponential waiting time was requested' % (hist, total)))
                return
            got = lf0.clocks[k]['rate']
            if abs(got - total) > TOL * max(1.0, total):
                fails.append(Failure('%s:clock-rate' % name,
                                     'after history %r the waiting-time rate is %r, sum of enabled rates is %r (state %r)'
                                     % (hist, got, total, state)))
                return
        # events present
        evs = {}
        for lf in done:
            ev = model.events(lf.out)
            evs[id(lf)] = ev
            want_n = k if expect_end else k + 1
            if len(ev) != want_n:
                why = ('no event is enabled' if total <= 0 else 'the next event time %r is not < tmax %r' % (t_k, model.tmax)) \
                    if expect_end else 'an event with total rate %r is due at %r < tmax %r' % (total, t_k, model.tmax)
                fails.append(Failure('%s:event-count:%s' % (name, 'extra' if len(ev) > want_n else 'missing'),
                                     'after history %r the run reports %d events, expected %d (%s); events %r'
                                     % (hist, len(ev), want_n, why, ev)))
                return
            for i in range(min(k, len(ev))):
                if (ev[i][1], ev[i][2]) != (hist[i][0], hist[i][1]) or ev[i][0] != times[i]:
                    fails.append(Failure('%s:history-rewritten' % name,
                                         'replaying decisions of history %r (times %r) gives events %r' % (hist, times[:k], ev)))
                    return
        if expect_end:
            stats.histories += 1
            if observe:
                observe(hist, state, stats)
            if check_arrays and done:
                _check_arrays_end(model, name, prefix, k, state, hist, fails, stats)
            return
        # law of event k
        def key(lf):
            e = evs[id(lf)][k]
            return (e[1], e[2], e[3] if model.has_source else None)
        for lf in done:
            e = evs[id(lf)][k]
            if e[0] != t_k:
                fails.append(Failure('%s:event-time' % name,
                                     'event %d of history %r is reported at %r, tmin + waiting times = %r' % (k, hist, e[0], t_k)))
                return
        got, mass = forkrng.law(leaves, key, start=len(prefix))
        stats.pruned = max(stats.pruned, abs(1.0 - mass))
        want = {}
        for kk, r in oracle.items():
            kk2 = kk if model.has_source else (kk[0], kk[1], None)
            want[kk2] = want.get(kk2, 0.0) + r / total
        for kk in set(got) | set(want):
            err = abs(got.get(kk, 0.0) - want.get(kk, 0.0))
            stats.max_err = max(stats.max_err, err if kk in want else 0.0)
            if err > TOL:
                if kk not in want:
                    sig, what = 'impossible-event', 'event %r has probability %.6g but is not enabled' % (kk, got[kk])
                elif kk not in got:
                    sig, what = 'event-never-happens', 'enabled event %r (share %.6g) never happens' % (kk, want[kk])
                else:
                    sig, what = 'step-law', 'event %r has probability %.9g, rate share is %.9g' % (kk, got[kk], want[kk])
                fails.append(Failure('%s:%s' % (name, sig),
                                     'after history %r (state %r): %s; implementation law %s, chain law %s'
                                     % (hist, state, what, _fmt(got), _fmt(want))))
                return
        if check_arrays:
            _check_arrays_step(model, name, prefix, k, state, hist, oracle, total, fails, stats)
            if fails:
                return
        # descend
        first = {}
        for lf in done:
            first.setdefault(key(lf), lf)
        keys = sorted(first, key=repr)
        if walk is not None:
            if not keys:
                return
            pick = walk.pop(0) if walk else 0
            keys = [keys[pick % len(keys)]]
        for kk in keys:
            lf = first[kk]
            e = evs[id(lf)][k]
            full_key = (e[1], e[2], e[3])
            st2 = model.apply(state, full_key)
            rec(lf.script, st2, k + 1, hist + [(e[1], e[2], e[3])])
            if fails:
                return

    rec([], dict(model.init), 0, [])
    return fails, stats


def _check_arrays_step(model, name, prefix, k, state, hist, oracle, total, fails, stats):
    try:
        leaves = forkrng.enumerate_paths(lambda rng: model.run(rng, False), prefix, max_clocks=k + 1)
    except forkrng.ScriptMismatch:
        fails.append(Failure('%s:array-mode-draws-differ' % name,
                             'array mode does not consume the same random draws as full-data mode after history %r' % (hist,)))
        return
    stats.sim_calls += len(leaves)
    for lf in leaves:
        if lf.kind == 'error':
            fails.append(Failure('%s:array-mode:exception:%s' % (name, exc_signature(lf.out)),
                                 'array mode raised %r after history %r' % (lf.out, hist)))
            return
    t_k = event_times(model.tmin, k)[k]

    def key(lf):
        ts, rows = model.rows(lf.out)
        if len(rows) != k + 2:
            return ('rows', len(rows))
        return (float(ts[-1]), tuple(rows[-1]), tuple(rows[-2]))
    got, mass = forkrng.law(leaves, key, start=len(prefix))
    want = {}
    cur = tuple(model.counts(state))
    for kk, r in oracle.items():
        nxt = tuple(model.counts(model.apply(state, kk)))
        want[(t_k, nxt, cur)] = want.get((t_k, nxt, cur), 0.0) + r / total
    for kk in set(got) | set(want):
        if abs(got.get(kk, 0.0) - want.get(kk, 0.0)) > TOL:
            fails.append(Failure('%s:array-mode:step-law' % name,
                                 'after history %r: array-mode law of (time, new row, previous row) %s differs from the chain %s'
                                 % (hist, _fmt(got), _fmt(want))))
            return


def _check_arrays_end(model, name, prefix, k, state, hist, fails, stats):
    try:
        leaves = forkrng.enumerate_paths(lambda rng: model.run(rng, False), prefix, max_clocks=k + 1)
    except forkrng.ScriptMismatch:
        fails.append(Failure('%s:array-mode-draws-differ' % name,
                             'array mode does not consume the same random draws as full-data mode after history %r' % (hist,)))
        return
    stats.sim_calls += len(leaves)
    times = [model.tmin] + event_times(model.tmin, k)[:k]
    for lf in leaves:
        if lf.kind == 'error':
            fails.append(Failure('%s:array-mode:exception:%s' % (name, exc_signature(lf.out)),
                                 'array mode raised %r after history %r' % (lf.out, hist)))
            return
        if lf.kind != 'done':
            continue
        ts, rows = model.rows(lf.out)
        st = dict(model.init)
        want_rows = [tuple(model.counts(st))]
        for e in hist:
            st = model.apply(st, e)
            want_rows.append(tuple(model.counts(st)))
        if [float(x) for x in ts] != times or [tuple(r) for r in rows] != want_rows:
            fails.append(Failure('%s:array-mode:final-rows' % name,
                                 'complete history %r: arrays t=%r rows=%r, expected t=%r rows=%r'
                                 % (hist, list(ts), [tuple(r) for r in rows], times, want_rows)))
            return
