"""E3 - Monte-Carlo against an exact law (used where no finite fork tree exists: event-driven fast_*).

Decision rule fixed in advance: stage 1 with M1 runs; only if p1 < 1e-3 a second, independent stage with
M2 = 4*M1; violation iff p2 < 1e-6 (or a state of oracle probability 0 is observed)."""
import math
import random
import multiprocessing
from collections import Counter
import numpy as np

from . import oracles
from .runner import Failure

P1 = 1e-3
P2 = 1e-6


def _simulate(cfg):
    import EoN
    G = oracles.build_graph(cfg['gc'])
    nodes = [oracles.tolabel(u) for u in cfg['gc']['nodes']]
    I0 = [oracles.tolabel(u) for u in cfg['I0']]
    R0 = [oracles.tolabel(u) for u in cfg.get('R0') or []]
    sim = cfg['sim']
    kw = dict(tmin=cfg['tmin'], return_full_data=True)
    if cfg.get('ew') is not None:
        kw['transmission_weight'] = cfg['ew']
    if cfg.get('nw') is not None:
        kw['recovery_weight'] = cfg['nw']
    tau, gamma = cfg['tau'], cfg['gamma']
    if sim in ('fast_SIR', 'Gillespie_SIR'):
        f = getattr(EoN, sim)
        if R0:
            kw['initial_recovereds'] = R0
        kw['tmax'] = cfg.get('tmax', float('inf'))
        kw['initial_infecteds'] = I0
        args = [G, tau, gamma]
        if cfg.get('positional'):
            from . import simrun
            args, kw = simrun.positional(sim, args, kw)
        return f(*args, **kw), nodes
    if sim in ('fast_SIS', 'Gillespie_SIS'):
        f = getattr(EoN, sim)
        kw['tmax'] = cfg['tmax']
        kw['initial_infecteds'] = I0
        args = [G, tau, gamma]
        if cfg.get('positional'):
            from . import simrun
            args, kw = simrun.positional(sim, args, kw)
        return f(*args, **kw), nodes
    if sim == 'fast_nonMarkov_SIS_exp':
        ew = oracles.edge_weight_fn(cfg['gc'], cfg.get('ew'))
        nw = oracles.node_weight_fn(cfg['gc'], cfg.get('nw'))

        def rec_time(u):
            r = gamma * nw(u)
            return random.expovariate(r) if r > 0 else float('inf')

        def trans_times(u, v, duration):
            r = tau * ew(u, v)
            out = []
            if r <= 0:
                return out
            t = random.expovariate(r)
            while t < duration and t < cfg['tmax'] - cfg['tmin']:
                out.append(t)
                t += random.expovariate(r)
            return out
        return EoN.fast_nonMarkov_SIS(G, trans_time_fxn=trans_times, rec_time_fxn=rec_time, initial_infecteds=I0,
                                      tmin=cfg['tmin'], tmax=cfg['tmax'], return_full_data=True), nodes
    raise ValueError(sim)


def _worker(args):
    cfg, m, seed = args
    random.seed(seed)
    np.random.seed(seed % (2 ** 32))
    times = cfg['times']
    counters = [Counter() for _ in times]
    err = None
    for _ in range(m):
        try:
            out, nodes = _simulate(cfg)
            for i, T in enumerate(times):
                stt = out.get_statuses(nodes, T if T != 'final' else float('inf'))
                counters[i][''.join(stt[u] for u in nodes)] += 1
        except Exception as e:   # reported by the caller as a violation of the law clause (crash)
            err = '%s: %s' % (type(e).__name__, e)
            break
    return counters, err


def oracle_laws(cfg):
    nodes, adj = oracles.adjacency(cfg['gc'])
    ew = oracles.edge_weight_fn(cfg['gc'], cfg.get('ew'))
    nw = oracles.node_weight_fn(cfg['gc'], cfg.get('nw'))
    sis = 'SIS' in cfg['sim']
    init = {u: 'S' for u in nodes}
    for u in cfg['I0']:
        init[oracles.tolabel(u)] = 'I'
    for u in cfg.get('R0') or []:
        init[oracles.tolabel(u)] = 'R'
    ch = oracles.Chain(nodes, init, lambda s: oracles.sir_events(s, adj, cfg['tau'], cfg['gamma'], ew, nw, sis=sis))
    keys = [''.join(s[u] for u in nodes) for s in ch.states]
    laws = []
    for T in cfg['times']:
        if T == 'final':
            p = ch.absorbing_law()
        else:
            p = ch.law_at([T - cfg['tmin']])[0]
        laws.append({k: float(v) for k, v in zip(keys, p) if v > 1e-15})
    return laws


def chi2_p(counter, law, M):
    """Pearson chi-square p-value (cells with expected < 5 pooled); also returns impossible observations."""
    from scipy.stats import chi2
    impossible = [k for k in counter if k not in law]
    cells = []
    pooled_e = pooled_o = 0.0
    for k, p in law.items():
        e = p * M
        o = counter.get(k, 0)
        if e < 5:
            pooled_e += e; pooled_o += o
        else:
            cells.append((o, e))
    if pooled_e > 0:
        cells.append((pooled_o, pooled_e))
    if len(cells) < 2:
        return 1.0, impossible, len(cells)
    stat = sum((o - e) ** 2 / e for o, e in cells)
    return float(chi2.sf(stat, len(cells) - 1)), impossible, len(cells)


def _run_stage(pool, cfg, M, seed, nproc):
    per = max(1, M // nproc)
    jobs = [(cfg, per, seed * 1000003 + i * 7919 + 17) for i in range(nproc)]
    res = pool.map(_worker, jobs)
    counters = [Counter() for _ in cfg['times']]
    err = None
    for cs, e in res:
        err = err or e
        for a, b in zip(counters, cs):
            a.update(b)
    return counters, per * nproc, err


def run_mc(ctx, sub, configs, M1, name_of=lambda c: c['sim'], nproc=16):
    """For each configuration compare the law of the node-state vector at cfg['times'] with the master equation."""
    from .runner import digest
    if ctx.shard_id != 0:
        return
    mpctx = multiprocessing.get_context('fork')
    with mpctx.Pool(nproc) as pool:
        for ci, cfg in enumerate(configs):
            laws = oracle_laws(cfg)
            ncells = max(sum(1 for p in l.values() if p * M1 >= 5) for l in laws)
            nontrivial = ncells >= 6
            base = (ctx.seed * 7919 + ci) * 2
            counters, M, err = _run_stage(pool, cfg, M1, base, nproc)
            ctx.count_only(sub, M, [digest(cfg)] if nontrivial else [])
            ctx.classes[sub + ':' + name_of(cfg)] = ctx.classes.get(sub + ':' + name_of(cfg), 0) + 1
            if nontrivial:
                ctx.add_sample(sub, {k: v for k, v in cfg.items()})
            name = name_of(cfg)
            if err:
                f = Failure('%s:mc:exception' % name, 'simulator raised %s on configuration %r' % (err, cfg))
                if ctx.split([f]):
                    ctx.violation(sub, cfg, f)
                continue
            bad = None
            for ti, (cnt, lw) in enumerate(zip(counters, laws)):
                p1, imp, nc = chi2_p(cnt, lw, M)
                if imp:
                    bad = Failure('%s:mc:impossible-state' % name,
                                  'state(s) %r observed at time %r have probability 0 in the master equation; cfg %r'
                                  % (imp[:5], cfg['times'][ti], cfg))
                    break
                if p1 < P1:
                    ctx.subcount(sub, 'stage1_hits')
                    counters2, M2, err2 = _run_stage(pool, cfg, 4 * M1, base + 1, nproc)
                    ctx.count_only(sub, M2)
                    p2, imp2, nc2 = chi2_p(counters2[ti], lw, M2)
                    if p2 < P2 or imp2:
                        top = sorted(lw.items(), key=lambda kv: -kv[1])[:6]
                        bad = Failure('%s:mc:law-at-%s' % (name, 'final' if cfg['times'][ti] == 'final' else 'T'),
                                      'node-state law at time %r differs from the master equation: stage-1 p=%.3g (M=%d), '
                                      'stage-2 p=%.3g (M=%d); largest cells expected/observed: %s; cfg %r'
                                      % (cfg['times'][ti], p1, M, p2, M2,
                                         ['%s %.4f/%.4f' % (k, v, counters2[ti].get(k, 0) / M2) for k, v in top], cfg))
                        break
                    else:
                        ctx.subcount(sub, 'stage1_hits_not_confirmed')
            if bad is not None and ctx.split([bad]):
                ctx.violation(sub, cfg, bad)


def replay_mc(ctx, cfg, M1, nproc=16):
    class Tmp(object):
        pass
    before = len(ctx.violations)
    run_mc(ctx, 'mc-replay', [cfg], M1, nproc=nproc)
    return [Failure(v['signature'], v['message']) for v in ctx.violations[before:]]
