"""E5 - runner: context, known findings, Hypothesis driver, replay, evidence.

Every check is `./check <ID> [--tier quick|thorough] [--replay FILE]`.
Exit codes: 0 held / 1 violation (prints VIOLATION line) / 2 harness problem or inconclusive.
"""
import os, sys, json, time, hashlib, traceback, math, importlib

VERIF = os.path.dirname(os.path.dirname(os.path.abspath(__file__)))
REPO = os.environ.get('EON_REPO', '/repo')
OUT = os.environ.get('EON_OUT', VERIF)   # where evidence/ and replays/ are written (scratch dir for mutation runs)


def jsonable(x):
    """Canonical JSON-able form of a case (tuples->lists, sets sorted, floats kept, inf as string)."""
    import numpy as np
    if isinstance(x, dict):
        return {str(k): jsonable(v) for k, v in x.items()}
    if isinstance(x, (list, tuple)):
        return [jsonable(v) for v in x]
    if isinstance(x, (set, frozenset)):
        return sorted((jsonable(v) for v in x), key=repr)
    if isinstance(x, (np.integer,)):
        return int(x)
    if isinstance(x, (np.floating,)):
        x = float(x)
    if isinstance(x, np.ndarray):
        return jsonable(x.tolist())
    if isinstance(x, float):
        if math.isinf(x):
            return 'inf' if x > 0 else '-inf'
        if math.isnan(x):
            return 'nan'
        return x
    if isinstance(x, (int, str, bool)) or x is None:
        return x
    return repr(x)


def digest(case):
    return hashlib.sha1(json.dumps(jsonable(case), sort_keys=True).encode()).hexdigest()[:16]


class Failure(object):
    """One failed clause of a property on one case."""
    def __init__(self, signature, message, detail=None):
        self.signature = signature
        self.message = message
        self.detail = detail

    def __repr__(self):
        return 'Failure(%s: %s)' % (self.signature, self.message)


class Result(object):
    """What a property function returns for one case."""
    def __init__(self, failures=(), nontrivial=False, classes=(), inconclusive=None, note=None):
        self.failures = list(failures)
        self.nontrivial = nontrivial
        self.classes = list(classes)
        self.inconclusive = inconclusive
        self.note = note


class HarnessError(Exception):
    """The harness (not the code under test) could not evaluate a case."""


class _PropertyFailed(Exception):
    pass


class RunawayError(Exception):
    """Raised from inside a harness-supplied callback / random source when the code under test makes more
    calls than any terminating run on the given input can need (deterministic non-termination detector)."""


class CallBudget(object):
    def __init__(self, limit, what='callback'):
        self.limit, self.n, self.what = limit, 0, what

    def tick(self):
        self.n += 1
        if self.n > self.limit:
            raise RunawayError('%s invoked more than %d times' % (self.what, self.limit))


class CaseTimeout(BaseException):
    pass


class watchdog(object):
    """Wall-clock guard around one case: a hit is *inconclusive* (harness error, exit 2), never a violation."""
    def __init__(self, seconds):
        self.seconds = seconds

    def __enter__(self):
        import signal

        def handler(signum, frame):
            raise CaseTimeout()
        self.old = signal.signal(signal.SIGALRM, handler)
        signal.setitimer(signal.ITIMER_REAL, self.seconds)
        return self

    def __exit__(self, *a):
        import signal
        signal.setitimer(signal.ITIMER_REAL, 0)
        signal.signal(signal.SIGALRM, self.old)
        return False


def load_known():
    known, fixed = [], []
    path = os.path.join(VERIF, 'KNOWN_FINDINGS.txt')
    if os.path.exists(path):
        for line in open(path):
            line = line.strip()
            if not line or line.startswith('#'):
                continue
            parts = line.split(None, 3)
            if parts[0] == 'known:' and len(parts) >= 3:
                pid = parts[1].split('=', 1)[1]
                sig = parts[2].split('=', 1)[1]
                what = parts[3] if len(parts) > 3 else ''
                known.append((pid, sig, what))
            elif parts[0] == 'fixed:':
                fixed.append(line)
    return known, fixed


class Ctx(object):
    def __init__(self, pid, tier, seed, level='exploration'):
        self.pid = pid
        self.tier = tier
        self.seed = seed
        self.level = level
        self.t0 = time.time()
        self.evaluations = 0
        self.nontrivial_digests = set()
        self.samples = {}
        self.classes = {}
        self.sub = {}
        self.violations = []
        self.known_hits = {}
        self.harness_errors = []
        self.inconclusive = {}
        self.assumptions = []
        self.rule = ''
        self.extra = {}
        self.exhaustive = None
        known, _ = load_known()
        self.known = {sig: what for (p, sig, what) in known if p == pid}
        self.session_excluded = set()
        self.shard_id = int(os.environ.get('VERIF_SHARD_ID', '0'))
        self.shards = int(os.environ.get('VERIF_SHARDS_N', '1'))

    # ---- bookkeeping --------------------------------------------------
    def subcount(self, sub, key, n=1):
        d = self.sub.setdefault(sub, {})
        d[key] = d.get(key, 0) + n

    def record(self, sub, case, nontrivial=False, classes=(), sample=True):
        self.evaluations += 1
        self.subcount(sub, 'evaluations')
        for c in classes:
            k = sub + ':' + c
            self.classes[k] = self.classes.get(k, 0) + 1
        if nontrivial:
            d = digest(case)
            if d not in self.nontrivial_digests:
                self.nontrivial_digests.add(d)
                self.subcount(sub, 'distinct_nontrivial')
                lst = self.samples.setdefault(sub, [])
                if sample and len(lst) < 2:
                    lst.append(jsonable(case))

    def count_only(self, sub, n, nontrivial_digests=()):
        """For bulk engines (MC, enumerations) that count their own executions."""
        self.evaluations += n
        self.subcount(sub, 'evaluations', n)
        for d in nontrivial_digests:
            if d not in self.nontrivial_digests:
                self.nontrivial_digests.add(d)
                self.subcount(sub, 'distinct_nontrivial')

    def add_sample(self, sub, sample):
        lst = self.samples.setdefault(sub, [])
        if len(lst) < 3:
            lst.append(jsonable(sample))

    def is_known(self, signature):
        return signature in self.known

    def known_hit(self, f):
        self.known_hits[f.signature] = self.known_hits.get(f.signature, 0) + 1

    def split(self, failures):
        """-> (new failures, known failures); counts the known ones."""
        new = []
        for f in failures:
            if self.is_known(f.signature):
                self.known_hit(f)
            elif f.signature in self.session_excluded:
                pass
            else:
                new.append(f)
        return new

    def violation(self, sub, case, failure):
        d = digest({'sub': sub, 'case': case, 'sig': failure.signature})
        os.makedirs(os.path.join(OUT, 'replays'), exist_ok=True)
        path = os.path.join(OUT, 'replays', '%s-%s.json' % (self.pid, d))
        with open(path, 'w') as fh:
            json.dump({'property': self.pid, 'sub': sub, 'signature': failure.signature,
                       'message': failure.message, 'detail': jsonable(failure.detail),
                       'case': jsonable(case)}, fh, indent=1, sort_keys=True)
        self.violations.append({'sub': sub, 'signature': failure.signature,
                                'message': failure.message, 'replay': path})
        self.session_excluded.add(failure.signature)
        print('VIOLATION property=%s replay=%s' % (self.pid, path))
        print('  sub=%s signature=%s\n  %s' % (sub, failure.signature, failure.message))
        sys.stdout.flush()

    def harness_error(self, sub, msg):
        self.harness_errors.append({'sub': sub, 'message': msg})
        print('HARNESS-ERROR property=%s sub=%s %s' % (self.pid, sub, msg))
        sys.stdout.flush()

    def note_inconclusive(self, sub, reason):
        k = sub + ':' + reason
        self.inconclusive[k] = self.inconclusive.get(k, 0) + 1

    def budget_left(self, total_s):
        return total_s - (time.time() - self.t0)

    # ---- finishing ----------------------------------------------------
    def finish(self):
        wall = time.time() - self.t0
        for sig, n in sorted(self.known_hits.items()):
            print('KNOWN-FINDING: property=%s %s -- %s (hit %d times)' % (self.pid, sig, self.known[sig], n))
        samples = []
        for sub, lst in sorted(self.samples.items()):
            for s in lst:
                samples.append({'sub': sub, 'case': s})
        cov = {
            'evaluations': int(self.evaluations),
            'distinct_nontrivial': int(len(self.nontrivial_digests)),
            'rule': self.rule,
            'samples': samples[:12],
            'per_subcheck': self.sub,
            'class_histogram': self.classes,
            'known_finding_hits': self.known_hits,
            'inconclusive': self.inconclusive,
            'harness_errors': self.harness_errors,
            'violations_found': self.violations,
        }
        if self.exhaustive is not None:
            cov['exhaustive'] = bool(self.exhaustive)
        cov.update(self.extra)
        ev = {
            'property_id': self.pid, 'tier': self.tier, 'seed': int(self.seed), 'level': self.level,
            'coverage': cov, 'assumptions': self.assumptions, 'wall_s': round(wall, 3),
            'violations': len(self.violations),
        }
        os.makedirs(os.path.join(OUT, 'evidence'), exist_ok=True)
        path = os.path.join(OUT, 'evidence', '%s.json' % self.pid)
        if self.shards > 1:
            ev['_digests'] = sorted(self.nontrivial_digests)
            path = os.path.join(OUT, 'evidence', '.%s.shard%d.json' % (self.pid, self.shard_id))
        with open(path, 'w') as fh:
            json.dump(ev, fh, indent=1, sort_keys=True)
        print('%s tier=%s seed=%d evaluations=%d distinct_nontrivial=%d violations=%d known=%d harness_errors=%d wall=%.1fs'
              % (self.pid, self.tier, self.seed, self.evaluations, len(self.nontrivial_digests),
                 len(self.violations), len(self.known_hits), len(self.harness_errors), wall))
        if self.violations:
            return 1
        if self.harness_errors:
            return 2
        return 0


# ---------------------------------------------------------------------------
# Hypothesis driver
# ---------------------------------------------------------------------------

def run_hypothesis(ctx, sub, strategy, prop, max_examples, rounds=3, shrink_budget_s=None,
                   min_class_fraction=None, case_timeout=60):
    """Drive `prop(case) -> Result` over `strategy`.

    Failures with a known signature are counted and excluded (the search continues).  A new failure
    is shrunk by Hypothesis and reported; the search is then repeated with that signature excluded
    (root-cause enumeration), at most `rounds` times.
    """
    import hypothesis
    from hypothesis import given, settings, seed, HealthCheck, Phase
    from hypothesis import errors as herrors

    if getattr(ctx, 'only', None) and sub not in ctx.only:
        return
    if shrink_budget_s is None:
        shrink_budget_s = 60 if ctx.tier == 'quick' else 240

    flaky_types = tuple(getattr(herrors, n) for n in ('Flaky', 'FlakyFailure', 'FlakyReplay') if hasattr(herrors, n))
    for rnd in range(rounds):
        state = {'best': None, 't_first': None, 'stop': False}

        def body(case):
            if state['stop']:
                return
            try:
                try:
                    with watchdog(case_timeout):
                        res = prop(case)
                except CaseTimeout:
                    # a machine-wide stall (all shards of a thorough run once timed out in the same second on millisecond cases)
                    # looks like a hang; a real hang times out again
                    with watchdog(case_timeout):
                        res = prop(case)
            except CaseTimeout:
                ctx.harness_error(sub, 'case did not finish within %ds, twice (inconclusive): %s' % (case_timeout, json.dumps(jsonable(case))[:1500]))
                state['stop'] = True
                return
            except HarnessError as e:
                ctx.harness_error(sub, '%s on case %s' % (e, json.dumps(jsonable(case))[:400]))
                state['stop'] = True
                return
            ctx.record(sub, case, res.nontrivial, res.classes)
            if res.inconclusive:
                ctx.note_inconclusive(sub, res.inconclusive)
            new = ctx.split(res.failures)
            if new:
                size = len(json.dumps(jsonable(case)))
                if state['best'] is None or size <= state['best'][2]:
                    state['best'] = (case, new[0], size)
                if state['t_first'] is None:
                    state['t_first'] = time.time()
                elif time.time() - state['t_first'] > shrink_budget_s:
                    state['stop'] = True   # stop shrinking: later calls pass, best-so-far is reported
                    return
                raise _PropertyFailed(new[0].signature)

        test = given(strategy)(body)
        test = settings(max_examples=max_examples, database=None, deadline=None,
                        derandomize=False, report_multiple_bugs=False, print_blob=False,
                        suppress_health_check=list(HealthCheck),
                        phases=[Phase.generate, Phase.shrink])(test)
        test = seed(ctx.seed * 1000 + rnd + 7919 * ctx.shard_id)(test)
        try:
            test()
        except _PropertyFailed:
            pass
        except flaky_types:
            pass
        except herrors.Unsatisfiable as e:
            ctx.harness_error(sub, 'Unsatisfiable: %s' % e)
            return
        except HarnessError as e:
            ctx.harness_error(sub, str(e))
            return
        except BaseException as e:
            if isinstance(e, (KeyboardInterrupt, SystemExit)):
                raise
            if state['best'] is None:
                ctx.harness_error(sub, 'unexpected %s: %s\n%s' % (type(e).__name__, e, traceback.format_exc()[-1500:]))
                return
        if state['best'] is None:
            break
        case, failure, _ = state['best']
        ctx.violation(sub, case, failure)
    if min_class_fraction:
        check_class_fractions(ctx, sub, min_class_fraction)


def check_class_fractions(ctx, sub, min_class_fraction):
    """a class the property singles out that is hardly realised means the generator is wrong: harness error, not a pass"""
    if True:
        n = ctx.sub.get(sub, {}).get('evaluations', 0)
        for cls, frac in min_class_fraction.items():
            got = ctx.classes.get(sub + ':' + cls, 0)
            if n and got < frac * n and not ctx.violations:
                ctx.harness_error(sub, 'generator class %r realised in %d/%d cases (< %.0f%%)' % (cls, got, n, frac * 100))


def run_cases(ctx, sub, cases, prop, stop_after=3, case_timeout=120):
    """Drive prop over an explicit (ordered, smallest-first) iterable of cases."""
    if ctx.shard_id != 0:
        return
    found = 0
    for case in cases:
        try:
            with watchdog(case_timeout):
                res = prop(case)
        except CaseTimeout:
            ctx.harness_error(sub, 'case did not finish within %ds (inconclusive): %s' % (case_timeout, json.dumps(jsonable(case))[:600]))
            return
        except HarnessError as e:
            ctx.harness_error(sub, '%s on case %s' % (e, json.dumps(jsonable(case))[:400]))
            return
        ctx.record(sub, case, res.nontrivial, res.classes)
        if res.inconclusive:
            ctx.note_inconclusive(sub, res.inconclusive)
        new = ctx.split(res.failures)
        if new:
            ctx.violation(sub, case, new[0])
            found += 1
            if found >= stop_after:
                return


# ---------------------------------------------------------------------------
# guarded calls
# ---------------------------------------------------------------------------

def exc_signature(e):
    """(type name, innermost EoN frame function) of an exception."""
    tb = e.__traceback__
    fn = None
    while tb is not None:
        f = tb.tb_frame.f_code
        if os.sep + 'EoN' + os.sep in f.co_filename:
            fn = f.co_name
        tb = tb.tb_next
    return '%s@%s' % (type(e).__name__, fn)


def run_regressions(ctx, mod):
    """Seconds-long replay tier: every saved case under /verif/regressions/<ID>-*.json (former false alarms of the
    harness, shrunk counterexamples of repaired defects) is re-executed through the property function, bypassing Hypothesis."""
    import glob
    if getattr(ctx, 'only', None) or ctx.shard_id != 0:
        return
    for path in sorted(glob.glob(os.path.join(VERIF, 'regressions', '%s-*.json' % ctx.pid))):
        rp = json.load(open(path))
        try:
            with watchdog(300):
                failures = mod.replay(ctx, rp['sub'], rp['case'])
        except CaseTimeout:
            ctx.harness_error('regressions', 'saved case %s did not finish in 300s' % os.path.basename(path))
            continue
        except HarnessError as e:
            ctx.harness_error('regressions', '%s on saved case %s' % (e, os.path.basename(path)))
            continue
        ctx.record('regressions', {'file': os.path.basename(path), 'case': rp['case']}, True, ['saved-case'], sample=False)
        new = ctx.split(failures)
        if new:
            ctx.violation('regressions', rp['case'], new[0])


# ---------------------------------------------------------------------------
# main
# ---------------------------------------------------------------------------

def run_sharded(pid, args, seed, nshards, level):
    """Thorough tier: the Hypothesis sub-checks run in `nshards` processes with different derived seeds (pool-based
    sub-checks - exhaustive trees, Monte-Carlo, cross-process batches - run in shard 0 only); evidence is merged."""
    import subprocess, glob
    t0 = time.time()
    procs = []
    for i in range(nshards):
        env = dict(os.environ, VERIF_SHARD_ID=str(i), VERIF_SHARDS_N=str(nshards), VERIF_SEED=str(seed))
        cmd = [sys.executable, os.path.join(VERIF, 'check'), pid, '--tier', args.tier] + (['--only', args.only] if args.only else [])
        procs.append(subprocess.Popen(cmd, env=env, stdout=subprocess.PIPE, stderr=subprocess.STDOUT, text=True))
    rc = 0
    for i, p in enumerate(procs):
        out, _ = p.communicate()
        for line in out.splitlines():
            if line.startswith(('VIOLATION', 'KNOWN-FINDING', 'HARNESS-ERROR', '  ')):
                print(line)
        if p.returncode == 1:
            rc = 1
        elif p.returncode != 0 and rc == 0:
            rc = 2
    merged = None
    digests = set()
    for f in sorted(glob.glob(os.path.join(OUT, 'evidence', '.%s.shard*.json' % pid))):
        ev = json.load(open(f))
        os.remove(f)
        digests |= set(ev.pop('_digests', []))
        if merged is None:
            merged = ev
            continue
        c, m = ev['coverage'], merged['coverage']
        m['evaluations'] += c['evaluations']
        for k in ('class_histogram', 'known_finding_hits', 'inconclusive'):
            for kk, v in c.get(k, {}).items():
                m[k][kk] = m[k].get(kk, 0) + v
        for sub, d in c.get('per_subcheck', {}).items():
            for kk, v in d.items():
                m['per_subcheck'].setdefault(sub, {})[kk] = m['per_subcheck'].get(sub, {}).get(kk, 0) + (v if kk == 'evaluations' else 0)
        m['harness_errors'] += c.get('harness_errors', [])
        m['violations_found'] += c.get('violations_found', [])
        m['samples'] = (m['samples'] + c.get('samples', []))[:12]
        merged['violations'] += ev.get('violations', 0)
    if merged is None:
        print('HARNESS-ERROR property=%s no shard produced evidence' % pid)
        return 2
    merged['coverage']['distinct_nontrivial'] = len(digests)
    merged['coverage']['shards'] = nshards
    merged['wall_s'] = round(time.time() - t0, 3)
    with open(os.path.join(OUT, 'evidence', '%s.json' % pid), 'w') as fh:
        json.dump(merged, fh, indent=1, sort_keys=True)
    print('%s tier=%s seed=%d shards=%d evaluations=%d distinct_nontrivial=%d violations=%d wall=%.1fs'
          % (pid, args.tier, seed, nshards, merged['coverage']['evaluations'], len(digests), merged['violations'], merged['wall_s']))
    return rc


def main(argv=None):
    import argparse
    ap = argparse.ArgumentParser()
    ap.add_argument('pid')
    ap.add_argument('--tier', default=os.environ.get('VERIF_TIER', 'quick'), choices=['quick', 'thorough'])
    ap.add_argument('--replay', default=None)
    ap.add_argument('--only', default=None, help='comma-separated sub-check names (debugging)')
    args = ap.parse_args(argv)
    try:
        seed = int(os.environ.get('VERIF_SEED', '1'))
    except ValueError:
        seed = 1
    pid = args.pid.upper()
    try:
        mod = importlib.import_module('eonverif.props.%s' % pid.lower())
    except Exception:
        traceback.print_exc()
        print('HARNESS-ERROR property=%s cannot import property module' % pid)
        return 2
    nshards = int(os.environ.get('VERIF_SHARDS', '8' if args.tier == 'thorough' else '1'))
    if nshards > 1 and not args.replay and 'VERIF_SHARD_ID' not in os.environ and getattr(mod, 'SHARDABLE', True):
        return run_sharded(pid, args, seed, nshards, getattr(mod, 'LEVEL', 'exploration'))
    ctx = Ctx(pid, args.tier, seed, level=getattr(mod, 'LEVEL', 'exploration'))
    ctx.only = set(args.only.split(',')) if args.only else None
    try:
        if args.replay:
            rp = json.load(open(args.replay))
            failures = mod.replay(ctx, rp['sub'], rp['case'])
            new = [f for f in failures if not ctx.is_known(f.signature)]
            if new:
                print('VIOLATION property=%s replay=%s' % (pid, args.replay))
                for f in new:
                    print('  signature=%s %s' % (f.signature, f.message))
                return 1
            print('replay passes: %s' % args.replay)
            return 0
        mod.run(ctx)
        run_regressions(ctx, mod)
    except HarnessError as e:
        ctx.harness_error('main', str(e))
    except Exception as e:
        ctx.harness_error('main', 'uncaught %s: %s\n%s' % (type(e).__name__, e, traceback.format_exc()[-2500:]))
    return ctx.finish()
