"""E1 - forking random source.

Installed as `EoN.simulation.random` / `EoN.simulation.np` for the duration of one simulator call, it makes
the simulator a deterministic function of a *decision script*:

  random()            -> symbolic uniform a*U+b; comparing it with a number is a fork of known probability
  choice/sample/...   -> uniform forks
  expovariate(rate)   -> a recorded clock request; returns the next scripted (dyadic) delay, or +inf once
                         `max_clocks` requests were served (which ends every Gillespie loop normally)
  np.random.binomial  -> fork over k=0..n with the binomial pmf

`enumerate_paths` explores all completions of a script prefix depth-first (one fresh simulator call per
path); `law` sums path probabilities per outcome, solving rejection loops (choice -> accept test -> same
choice again) as a geometric restart.
"""
import math
import contextlib
import numpy as _np

from .runner import HarnessError

EPS = 1e-13      # a branch is pruned when its path mass (relative to the explored prefix) falls below this
DELAYS = (0.5, 0.25, 0.75, 1.0, 0.125, 0.375, 1.5, 0.625)
TINY_RATE = 1e-12     # below this a rate is roundoff residue of O(1) rates, not a rate (the checks generate genuine rates down to 1e-11)


class HarnessUnsupported(HarnessError):
    pass


class _Restart(BaseException):
    def __init__(self, depth):
        self.depth = depth


class ScriptMismatch(HarnessError):
    pass


class _Runaway(BaseException):
    """more forks / clock requests on one path than the caller says any terminating run can need"""


class _Core(object):
    __slots__ = ('lo', 'hi')

    def __init__(self):
        self.lo = 0.0
        self.hi = 1.0


class SymU(object):
    """a*U+b with U uniform on [core.lo, core.hi)."""
    __slots__ = ('rng', 'core', 'a', 'b')
    __array_priority__ = 1000

    def __init__(self, rng, core, a=1.0, b=0.0):
        self.rng, self.core, self.a, self.b = rng, core, a, b

    @staticmethod
    def _num(x):
        if isinstance(x, SymU):
            raise HarnessUnsupported('arithmetic/comparison between two symbolic uniforms')
        try:
            return float(x)
        except Exception:
            raise HarnessUnsupported('symbolic uniform combined with %r' % (type(x),))

    def __add__(self, c):
        c = self._num(c); return SymU(self.rng, self.core, self.a, self.b + c)
    __radd__ = __add__

    def __sub__(self, c):
        c = self._num(c); return SymU(self.rng, self.core, self.a, self.b - c)

    def __rsub__(self, c):
        c = self._num(c); return SymU(self.rng, self.core, -self.a, c - self.b)

    def __mul__(self, c):
        c = self._num(c); return SymU(self.rng, self.core, self.a * c, self.b * c)
    __rmul__ = __mul__

    def __truediv__(self, c):
        c = self._num(c)
        if c == 0:
            raise ZeroDivisionError('float division by zero')
        return SymU(self.rng, self.core, self.a / c, self.b / c)

    def __neg__(self):
        return SymU(self.rng, self.core, -self.a, -self.b)

    def __pos__(self):
        return self

    def _less(self, c):
        """fork on (a*U+b < c)"""
        c = self._num(c)
        if math.isnan(c):
            return False
        a, b, core = self.a, self.b, self.core
        if a == 0:
            return b < c
        if math.isinf(c):
            return c > 0
        x = (c - b) / a
        width = core.hi - core.lo
        if a > 0:       # U < x
            p = (x - core.lo) / width
        else:           # U > x
            p = (core.hi - x) / width
        p = min(1.0, max(0.0, p))
        res = self.rng._fork(('cmp',), (1.0 - p, p)) == 1
        if a > 0:
            if res: core.hi = min(core.hi, max(x, core.lo))
            else: core.lo = max(core.lo, min(x, core.hi))
        else:
            if res: core.lo = max(core.lo, min(x, core.hi))
            else: core.hi = min(core.hi, max(x, core.lo))
        return res

    def __lt__(self, c): return self._less(c)
    def __le__(self, c): return self._less(c)
    def __gt__(self, c): return not self._less(c)
    def __ge__(self, c): return not self._less(c)

    def __eq__(self, c): raise HarnessUnsupported('== on a symbolic uniform')
    def __ne__(self, c): raise HarnessUnsupported('!= on a symbolic uniform')
    __hash__ = None

    def __bool__(self): raise HarnessUnsupported('truth value of a symbolic uniform')
    def __float__(self): raise HarnessUnsupported('float() of a symbolic uniform')
    def __int__(self): raise HarnessUnsupported('int() of a symbolic uniform')
    def __array__(self, *a, **k): raise HarnessUnsupported('numpy conversion of a symbolic uniform')
    def __pow__(self, c): raise HarnessUnsupported('power of a symbolic uniform')
    def __rpow__(self, c): raise HarnessUnsupported('power of a symbolic uniform')
    def __rtruediv__(self, c): raise HarnessUnsupported('division by a symbolic uniform')
    def __floordiv__(self, c): raise HarnessUnsupported('floor division of a symbolic uniform')
    def __mod__(self, c): raise HarnessUnsupported('modulo of a symbolic uniform')


def _desc_item(x):
    try:
        return repr(x)
    except Exception:
        return '<obj>'


class ForkRNG(object):
    """Stands in for the `random` module."""

    def __init__(self, script=(), max_clocks=10 ** 9, delays=DELAYS, detect_restart=True, max_forks=None, prefer_true=False, mass_from=0):
        self.prefer_true = prefer_true
        self.mass_from = mass_from      # path mass is measured from this fork index on (the end of the fixed prefix)
        self.mass = 1.0
        self.script = list(script)
        self.trace = []       # dicts: kind, desc, probs, chosen, nclock
        self.clocks = []      # dicts: rate, pos (number of forks before it), delay
        self.max_clocks = max_clocks
        self.delays = delays
        self.detect_restart = detect_restart
        self.pruned = 0.0
        self.max_forks = max_forks

    # -- core ------------------------------------------------------------
    def _fork(self, desc, probs):
        i = len(self.trace)
        if self.max_forks is not None and i >= self.max_forks:
            raise _Runaway()
        if i > 20000:
            raise HarnessError('more than 20000 forks on one path (unbounded random loop?)')
        if self.detect_restart and desc[0] == 'choice' and i >= 2:
            par, gp = self.trace[-1], self.trace[-2]
            if par['desc'][0] == 'cmp' and gp['desc'] == desc and gp['nclock'] == len(self.clocks) \
                    and par['nclock'] == len(self.clocks):
                raise _Restart(i - 2)
        mass = self.mass
        if i < len(self.script):
            c = self.script[i]
            if not (0 <= c < len(probs)):
                raise ScriptMismatch('script entry %d out of range at fork %d %r' % (c, i, desc))
        else:
            c = None
            if self.prefer_true and desc[0] == 'cmp' and mass * probs[1] >= EPS:
                c = 1
            for k, p in (enumerate(probs) if c is None else ()):
                if mass * p >= EPS:
                    c = k
                    break
            if c is None:
                c = max(range(len(probs)), key=lambda k: probs[k])
        self.trace.append({'desc': desc, 'probs': tuple(probs), 'chosen': c, 'nclock': len(self.clocks), 'mass': mass})
        if i >= self.mass_from:
            self.mass = mass * probs[c]
        return c

    def _uniform_fork(self, kind, n, items=None):
        if n <= 0:
            raise IndexError('Cannot choose from an empty sequence')
        return self._fork((kind, items), (1.0 / n,) * n)

    # -- random module API -----------------------------------------------
    def random(self):
        return SymU(self, _Core())

    def uniform(self, a, b):
        return SymU(self, _Core(), b - a, a)

    def choice(self, seq):
        n = len(seq)
        if n == 0:
            raise IndexError('Cannot choose from an empty sequence')
        return seq[self._uniform_fork('choice', n, tuple(_desc_item(x) for x in seq))]

    def randrange(self, start, stop=None, step=1):
        r = range(start) if stop is None else range(start, stop, step)
        if len(r) == 0:
            raise ValueError('empty range for randrange()')
        return r[self._uniform_fork('randrange', len(r), (r.start, r.stop, r.step))]

    def randint(self, a, b):
        return self.randrange(a, b + 1)

    def sample(self, population, k, counts=None):
        if counts is not None:
            raise HarnessUnsupported('sample(counts=)')
        if isinstance(population, (set, frozenset, dict)):
            raise TypeError('Population must be a sequence.  For dicts or sets, use sorted(d).')
        pool = list(population)
        if not 0 <= k <= len(pool):
            raise ValueError('Sample larger than population or is negative')
        out = []
        for _ in range(k):
            j = self._uniform_fork('sample', len(pool), tuple(_desc_item(x) for x in pool))
            out.append(pool.pop(j))
        return out

    def shuffle(self, x):
        pool = list(x)
        out = []
        while pool:
            j = self._uniform_fork('shuffle', len(pool), len(pool))
            out.append(pool.pop(j))
        x[:] = out

    def choices(self, population, weights=None, cum_weights=None, k=1):
        pop = list(population)
        if cum_weights is not None:
            weights = [cum_weights[0]] + [cum_weights[i] - cum_weights[i - 1] for i in range(1, len(cum_weights))]
        if weights is None:
            return [pop[self._uniform_fork('choices', len(pop), tuple(_desc_item(x) for x in pop))] for _ in range(k)]
        tot = float(sum(weights))
        probs = tuple(w / tot for w in weights)
        return [pop[self._fork(('wchoices', tuple(_desc_item(x) for x in pop)), probs)] for _ in range(k)]

    def expovariate(self, lambd=1.0):
        rate = float(lambd)
        if rate == 0:
            raise ZeroDivisionError('float division by zero')
        idx = len(self.clocks)
        if self.max_forks is not None and idx > self.max_forks + self.max_clocks:
            raise _Runaway()
        if abs(rate) < TINY_RATE:
            d = 1.0 / rate            # what a real draw would be, to within a factor O(1): beyond any finite horizon
        elif idx >= self.max_clocks:
            d = float('inf')
        else:
            d = self.delays[idx % len(self.delays)]
            if rate < 0:
                d = -d
        self.clocks.append({'rate': rate, 'pos': len(self.trace), 'delay': d})
        return d

    def seed(self, *a, **k):
        raise HarnessUnsupported('random.seed called by the code under test')

    def __getattr__(self, name):
        raise HarnessUnsupported('random.%s is not modelled by the forking source' % name)


class _NPRandom(object):
    def __init__(self, rng):
        self._rng = rng

    def binomial(self, n, p, size=None):
        if size is not None:
            raise HarnessUnsupported('np.random.binomial(size=)')
        n = int(n)
        p = float(p)
        if n == 0 or p <= 0.0:
            return 0
        if p >= 1.0:
            return n
        probs = tuple(math.comb(n, k) * p ** k * (1 - p) ** (n - k) for k in range(n + 1))
        return self._rng._fork(('binomial', n), probs)

    def random(self, size=None):
        if size is not None:
            raise HarnessUnsupported('np.random.random(size=)')
        return self._rng.random()
    random_sample = random

    def rand(self, *shape):
        if shape:
            raise HarnessUnsupported('np.random.rand(shape)')
        return self._rng.random()

    def exponential(self, scale=1.0, size=None):
        if size is not None:
            raise HarnessUnsupported('np.random.exponential(size=)')
        return self._rng.expovariate(1.0 / scale)

    def choice(self, a, size=None, replace=True, p=None):
        if size is not None:
            raise HarnessUnsupported('np.random.choice(size=)')
        pop = list(range(a)) if isinstance(a, int) else list(a)
        if p is None:
            return self._rng.choice(pop)
        return self._rng.choices(pop, weights=list(p))[0]

    def __getattr__(self, name):
        raise HarnessUnsupported('np.random.%s is not modelled by the forking source' % name)


class NPProxy(object):
    """numpy with a forking `.random`."""

    def __init__(self, rng):
        self.random = _NPRandom(rng)

    def __getattr__(self, name):
        return getattr(_np, name)


def _global_fingerprint():
    import random as _random
    st = _np.random.get_state()
    return (_random.getstate(), st[2], st[1][:4].tolist())


def _bypass_error():
    return HarnessUnsupported('randomness was drawn from the global random / numpy.random generators while the '
                              'module-level names were substituted: the forking source does not control this code')


@contextlib.contextmanager
def installed(rng, modules=None, check_bypass=True):
    import random as _random
    import EoN.simulation as sim
    mods = modules or [sim]
    saved = []
    for m in mods:
        if getattr(m, 'random', None) is not _random:
            raise HarnessUnsupported('%s.random is not the stdlib random module' % m.__name__)
        saved.append((m, m.random, getattr(m, 'np', None)))
        m.random = rng
        if getattr(m, 'np', None) is _np:
            m.np = NPProxy(rng)
    g0 = _global_fingerprint() if check_bypass else None
    try:
        yield rng
    finally:
        for m, r, n in saved:
            m.random = r
            if n is not None:
                m.np = n
    if check_bypass and g0 != _global_fingerprint():
        # the code under test drew from the global generators through some other path (e.g. `from random import random`):
        # legitimate for the code, but then the forking source does not own the schedule -> the harness cannot decide.
        raise _bypass_error()


class Leaf(object):
    __slots__ = ('trace', 'kind', 'out', 'clocks', 'script')

    def __init__(self, trace, kind, out, clocks):
        self.trace, self.kind, self.out, self.clocks = trace, kind, out, clocks
        self.script = [e['chosen'] for e in trace]

    def prob(self, start=0):
        p = 1.0
        for e in self.trace[start:]:
            p *= e['probs'][e['chosen']]
        return p


def enumerate_paths(run, prefix=(), max_clocks=10 ** 9, max_leaves=200000, delays=DELAYS, max_forks=None):
    """All completions of `prefix`.  run(rng) -> output (the forking source is installed by this driver).

    Leaves: kind 'done' (out = run's return value), 'error' (out = exception raised by the code under
    test) or 'restart' (out = depth of the choice fork the rejection loop restarts at)."""
    prefix = list(prefix)
    script = list(prefix)
    leaves = []
    pruned = 0.0
    g0 = _global_fingerprint()
    while True:
        rng = ForkRNG(script, max_clocks=max_clocks, delays=delays, max_forks=max_forks, mass_from=len(prefix))
        try:
            with installed(rng, check_bypass=False):
                out = run(rng)
            kind = 'done'
        except _Restart as r:
            kind, out = 'restart', r.depth
        except _Runaway:
            kind, out = 'runaway', None
        except HarnessError:
            raise
        except Exception as e:
            kind, out = 'error', e
        trace = rng.trace
        if len(trace) < len(prefix):
            raise ScriptMismatch('run consumed %d forks, prefix has %d' % (len(trace), len(prefix)))
        leaves.append(Leaf(trace, kind, out, rng.clocks))
        if len(leaves) > max_leaves:
            raise HarnessError('fork tree exceeds %d leaves' % max_leaves)
        j = len(trace) - 1
        nxt = None
        while j >= len(prefix):
            e = trace[j]
            for k in range(e['chosen'] + 1, len(e['probs'])):
                if e['mass'] * e['probs'][k] >= EPS:
                    nxt = k
                    break
            if nxt is not None:
                break
            j -= 1
        if nxt is None:
            break
        script = [e['chosen'] for e in trace[:j]] + [nxt]
    if g0 != _global_fingerprint():
        raise _bypass_error()
    return leaves


def law(leaves, key, start=0):
    """Exact probability law over key(leaf) for leaves that complete the same prefix of length `start`.

    Returns (dict outcome -> prob, total mass accounted for)."""
    def rec(group, depth):
        if len(group) == 1 and len(group[0].trace) == depth:
            lf = group[0]
            if lf.kind == 'restart':
                return {}, {lf.out: 1.0}
            if lf.kind == 'runaway':
                return {('runaway',): 1.0}, {}
            return {key(lf): 1.0}, {}
        by = {}
        for lf in group:
            if len(lf.trace) <= depth:
                raise HarnessError('inconsistent fork tree (a path ends where a sibling forks)')
            by.setdefault(lf.trace[depth]['chosen'], []).append(lf)
        out, rst = {}, {}
        for c, sub in by.items():
            p = sub[0].trace[depth]['probs'][c]
            o, r = rec(sub, depth + 1)
            for k, v in o.items():
                out[k] = out.get(k, 0.0) + p * v
            for k, v in r.items():
                rst[k] = rst.get(k, 0.0) + p * v
        r0 = rst.pop(depth, 0.0)
        if r0 > 0:
            # condition on leaving the loop: divide by the mass that does NOT restart here.  It is summed directly
            # (1 - r0 would cancel catastrophically when acceptance is rare, e.g. a stale, too large max weight).
            keep = sum(out.values()) + sum(rst.values())
            if keep <= 0.0:
                raise HarnessError('rejection loop that never accepts')
            s = 1.0 / keep
            out = {k: v * s for k, v in out.items()}
            rst = {k: v * s for k, v in rst.items()}
        return out, rst
    out, rst = rec(list(leaves), start)
    if rst:
        raise HarnessError('restart targets above the explored sub-tree: %r' % (rst,))
    return out, sum(out.values())
