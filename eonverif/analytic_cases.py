"""Registry of the analytic (ODE) entry points and independent hand counters for their initial conditions.

Used by C06 (conservation / initial state), C07, C08 (identities), C14 (relabelling), C19 (argument purity).
Nothing here calls EoN's own initial-condition builders.
"""
import math
import numpy as np
from hypothesis import strategies as st

from . import oracles, gen

INF = float('inf')


class IC(object):
    """Hand-counted initial classes of a graph for explicit sets (I0,R0) or for uniformly random rho."""

    def __init__(self, gc, I0=None, R0=None, rho=None, sis=False):
        self.nodes, self.adj = oracles.adjacency(gc)
        nodes, adj = self.nodes, self.adj
        self.N = len(nodes)
        self.deg = {u: len(adj[u]) for u in nodes}
        self.maxk = max(self.deg.values())
        self.Ks = sorted(set(self.deg.values()))
        self.Nk = np.zeros(self.maxk + 1)
        for u in nodes:
            self.Nk[self.deg[u]] += 1
        self.twoM = float(sum(self.deg.values()))
        self.kave = self.twoM / self.N
        self.rho = rho
        self.sis = sis
        K = len(self.Ks)
        kidx = {k: i for i, k in enumerate(self.Ks)}
        self.NkNl = np.zeros((K, K))
        for u in nodes:
            for v in adj[u]:
                self.NkNl[kidx[self.deg[u]], kidx[self.deg[v]]] += 1
        m = self.maxk + 1
        if rho is None:
            I0 = [oracles.tolabel(u) for u in I0]
            R0 = [oracles.tolabel(u) for u in (R0 or [])]
            st_ = {u: 'S' for u in nodes}
            for u in I0:
                st_[u] = 'I'
            for u in R0:
                st_[u] = 'R'
            self.status = st_
            self.I0nodes, self.R0nodes = I0, R0
            self.S0 = float(sum(1 for u in nodes if st_[u] == 'S'))
            self.I0 = float(len(I0))
            self.R0 = float(len(R0))
            self.Sk0, self.Ik0, self.Rk0 = np.zeros(m), np.zeros(m), np.zeros(m)
            for u in nodes:
                {'S': self.Sk0, 'I': self.Ik0, 'R': self.Rk0}[st_[u]][self.deg[u]] += 1
            self.SS0 = float(sum(1 for u in nodes for v in adj[u] if st_[u] == 'S' and st_[v] == 'S'))
            self.SI0 = float(sum(1 for u in nodes for v in adj[u] if st_[u] == 'S' and st_[v] == 'I'))
            self.II0 = float(sum(1 for u in nodes for v in adj[u] if st_[u] == 'I' and st_[v] == 'I'))
            self.SR0 = float(sum(1 for u in nodes for v in adj[u] if st_[u] == 'S' and st_[v] == 'R'))
            self.SkSl0, self.SkIl0, self.IkIl0 = np.zeros((K, K)), np.zeros((K, K)), np.zeros((K, K))
            for u in nodes:
                for v in adj[u]:
                    a, b = kidx[self.deg[u]], kidx[self.deg[v]]
                    if st_[u] == 'S' and st_[v] == 'S':
                        self.SkSl0[a, b] += 1
                    elif st_[u] == 'S' and st_[v] == 'I':
                        self.SkIl0[a, b] += 1
                    elif st_[u] == 'I' and st_[v] == 'I':
                        self.IkIl0[a, b] += 1
            self.S_si0 = np.zeros((m, m))
            self.I_si0 = np.zeros((m, m))
            self.Skappa0 = np.zeros(m)
            for u in nodes:
                s = sum(1 for v in adj[u] if st_[v] == 'S')
                i = sum(1 for v in adj[u] if st_[v] == 'I')
                if sis:
                    i = self.deg[u] - s
                if st_[u] == 'S':
                    self.S_si0[s, i] += 1
                    self.Skappa0[sum(1 for v in adj[u] if st_[v] != 'R')] += 1
                elif st_[u] == 'I':
                    self.I_si0[s, i] += 1
            self.X0 = np.array([1.0 if st_[u] == 'S' else 0.0 for u in nodes])
            self.Y0 = np.array([1.0 if st_[u] == 'I' else 0.0 for u in nodes])
            SX = sum(self.deg[u] for u in nodes if st_[u] == 'S')
            self.phiS0 = self.SS0 / SX if SX else float('nan')
            self.phiR0 = self.SR0 / SX if SX else float('nan')
            self.SX0 = float(SX)
        else:
            r = float(rho)
            self.status = None
            self.S0, self.I0, self.R0 = (1 - r) * self.N, r * self.N, 0.0
            self.Sk0, self.Ik0, self.Rk0 = (1 - r) * self.Nk, r * self.Nk, 0 * self.Nk
            self.SS0 = (1 - r) ** 2 * self.twoM
            self.SI0 = (1 - r) * r * self.twoM
            self.II0 = r * r * self.twoM
            self.SR0 = 0.0
            self.SkSl0 = (1 - r) ** 2 * self.NkNl
            self.SkIl0 = (1 - r) * r * self.NkNl
            self.IkIl0 = r * r * self.NkNl
            self.S_si0 = np.zeros((m, m))
            self.I_si0 = np.zeros((m, m))
            for s in range(m):
                for i in range(m - s):
                    w = math.comb(s + i, i) * r ** i * (1 - r) ** s * self.Nk[s + i]
                    self.S_si0[s, i] = (1 - r) * w
                    self.I_si0[s, i] = r * w
            self.Skappa0 = (1 - r) * self.Nk
            self.X0 = np.full(self.N, 1 - r)
            self.Y0 = np.full(self.N, r)
            self.phiS0, self.phiR0 = 1 - r, 0.0
            self.SX0 = (1 - r) * self.twoM

    # per-pair matrices in nodelist order (only edges)
    def pair_matrices(self):
        n = self.N
        idx = {u: i for i, u in enumerate(self.nodes)}
        XY = np.zeros((n, n)); XX = np.zeros((n, n))
        for u in self.nodes:
            for v in self.adj[u]:
                XY[idx[u], idx[v]] = self.X0[idx[u]] * self.Y0[idx[v]] * getattr(self, 'xy_factor', 1.0)
                XX[idx[u], idx[v]] = self.X0[idx[u]] * self.X0[idx[v]]
        return XY, XX

    def Pk(self, dense=False):
        # dense: an entry for every degree 0..kmax, unobserved degrees with probability 0.0 (the other common way to write the dict)
        return {k: self.Nk[k] / self.N for k in range(self.maxk + 1) if self.Nk[k] > 0 or dense}

    def by_Ks(self, arr):
        return np.array([arr[k] for k in self.Ks])

    def moments(self):
        ks = np.arange(self.maxk + 1)
        P = self.Nk / self.N
        return float(P.dot(ks)), float(P.dot(ks ** 2)), float(P.dot(ks ** 3))

    def regular_domain(self):
        """closures divide by [S], [SS], [SI], <k>: True when none of them vanishes initially"""
        return self.twoM > 0 and self.S0 > 0 and self.I0 > 0 and self.SS0 > 0 and self.SI0 > 0


def psi_fns(ic):
    """vectorised psihat, psihatPrime, psihatDPrime for susceptible degree classes Sk0/N"""
    Sk = ic.Sk0 / ic.N
    ks = np.arange(len(Sk))

    def psihat(x):
        x = np.asarray(x, dtype=float)
        return sum(Sk[k] * x ** k for k in ks if Sk[k] != 0)

    def psihatPrime(x):
        x = np.asarray(x, dtype=float)
        return sum(k * Sk[k] * x ** (k - 1) for k in ks if Sk[k] != 0 and k >= 1)

    def psihatDPrime(x):
        x = np.asarray(x, dtype=float)
        return sum(k * (k - 1) * Sk[k] * x ** (k - 2) for k in ks if Sk[k] != 0 and k >= 2)
    return psihat, psihatPrime, psihatDPrime


def psi_plain(ic):
    P = ic.Nk / ic.N
    ks = np.arange(len(P))

    def psi(x):
        x = np.asarray(x, dtype=float)
        return sum(P[k] * x ** k for k in ks if P[k] != 0)

    def psiPrime(x):
        x = np.asarray(x, dtype=float)
        return sum(k * P[k] * x ** (k - 1) for k in ks if P[k] != 0 and k >= 1)
    return psi, psiPrime


def Pnk_of(ic, as_defaultdict=False):
    """P_n(k2|k1) hand count: fraction of edge-ends of degree-k1 nodes that lead to degree k2"""
    out = {}
    for u in ic.nodes:
        k1 = ic.deg[u]
        row = out.setdefault(k1, {})
        for v in ic.adj[u]:
            row[ic.deg[v]] = row.get(ic.deg[v], 0.0) + 1.0
    for k1, row in out.items():
        tot = sum(row.values())
        for k2 in row:
            row[k2] /= tot
    if as_defaultdict:
        # the container EoN.get_Pnk itself returns: rows are defaultdict(int), a missing (k1,k2) reads as 0 - and a read inserts it
        from collections import defaultdict
        out = {k1: defaultdict(int, row) for k1, row in out.items()}
    return out


# ---------------------------------------------------------------------------
# entry points
# ---------------------------------------------------------------------------

class Entry(object):
    def __init__(self, name, model, level, modes, build, layout=None, nmax=12, discrete=False, singular=None, aux0=None):
        self.name, self.model, self.level, self.modes = name, model, level, modes
        self.build, self.layout, self.nmax, self.discrete = build, layout or {}, nmax, discrete
        self.singular = singular          # extra domain restriction: fn(ic) -> True if the model is closure-singular there
        self.aux0 = aux0


def _tk(c):
    return dict(tmin=c['tmin'], tmax=c['tmax'], tcount=c['tcount'])


def _sets_kw(c, ic, sir):
    if c['mode'] == 'rho':
        if c.get('rho_default'):
            return {}                    # documented default: rho = 1/N
        return {'rho': c['rho']}
    kw = {'initial_infecteds': _as_container(ic.I0nodes, c.get('I0form', 'list'))}
    if sir and ic.R0nodes:
        kw['initial_recovereds'] = _as_container(ic.R0nodes, c.get('R0form', 'list'))
    return kw


def _as_container(nodes, form):
    """the documented 'iterable of nodes' in several concrete shapes"""
    nodes = list(nodes)
    if form == 'tuple':
        return tuple(nodes)
    if form == 'set':
        return set(nodes)
    if form == 'frozenset':
        return frozenset(nodes)
    if form == 'dictkeys':
        return dict.fromkeys(nodes).keys()
    if form == 'array' and all(isinstance(u, int) for u in nodes):
        return np.array(nodes)
    return nodes


def _wrapper(name, sir, full=True):
    def build(EoN, G, c, ic, rfd):
        kw = dict(_tk(c))
        kw.update(_sets_kw(c, ic, sir))
        if full:
            kw['return_full_data'] = rfd
        return getattr(EoN, name), [G, c['tau'], c['gamma']], kw
    return build


def _node_level(name, sir):
    pure = name.endswith('pure_IC')

    def build(EoN, G, c, ic, rfd):
        kw = dict(_tk(c))
        kw['return_full_data'] = rfd
        if pure:
            kw['initial_infecteds'] = list(ic.I0nodes)
            if sir and ic.R0nodes:
                kw['initial_recovereds'] = list(ic.R0nodes)
        else:
            kw['rho'] = c['rho']
        if c.get('nodelist_perm'):
            nodes = [oracles.tolabel(u) for u in c['gc']['nodes']]
            kw['nodelist'] = [nodes[i] for i in c['nodelist_perm']]      # an explicit nodelist in an order of the caller's choosing
        if c.get('nl_weights') in ('both', 'transmission'):
            kw['transmission_weight'] = 'w'
        if c.get('nl_weights') in ('both', 'recovery'):
            kw['recovery_weight'] = 'rw'
        return getattr(EoN, name), [G, c['tau'], c['gamma']], kw
    return build


def _direct(name, argfn, full=True):
    def build(EoN, G, c, ic, rfd):
        args, kw = argfn(c, ic)
        kw = dict(kw)
        kw.update(_tk(c))
        if full:
            kw['return_full_data'] = rfd
        return getattr(EoN, name), args, kw
    return build


def _discrete(name, argfn):
    def build(EoN, G, c, ic, rfd):
        args, kw = argfn(c, ic, G)
        kw = dict(kw)
        kw['return_full_data'] = rfd
        return getattr(EoN, name), args, kw
    return build


def _ssc_singular(ic):
    k1, k2, k3 = ic.moments()
    return abs(k2 - k1 * k1) < 1e-12      # SIS super-compact closure divides by the degree variance


def _lay(c, M):
    """a 2-D initial-condition array in the caller's memory layout: C order, or Fortran order (a transposed table, np.asfortranarray)"""
    M = M.copy()
    return np.asfortranarray(M) if c.get('f_order') else M


def entries():
    E = []
    A = E.append
    # ---- node-level models ----
    A(Entry('SIS_individual_based', 'SIS', 'wrapper', ['rho'], _node_level('SIS_individual_based', False), {'Ss': 1, 'Is': 2}, nmax=10, aux0='pernode-only'))
    A(Entry('SIS_individual_based_pure_IC', 'SIS', 'wrapper', ['sets'], _node_level('SIS_individual_based_pure_IC', False), {'Ss': 1, 'Is': 2}, nmax=10, aux0='pernode-only'))
    A(Entry('SIR_individual_based', 'SIR', 'wrapper', ['rho'], _node_level('SIR_individual_based', True), {}, nmax=10))
    A(Entry('SIR_individual_based_pure_IC', 'SIR', 'wrapper', ['sets'], _node_level('SIR_individual_based_pure_IC', True), {'Ss': 4, 'Is': 5, 'Rs': 6}, nmax=10))
    A(Entry('SIS_pair_based', 'SIS', 'wrapper', ['rho'], _node_level('SIS_pair_based', False), {'Ss': 3, 'Is': 4, 'XY': 5, 'XX': 6}, nmax=6))
    A(Entry('SIS_pair_based_pure_IC', 'SIS', 'wrapper', ['sets'], _node_level('SIS_pair_based_pure_IC', False), {'Ss': 3, 'Is': 4, 'XY': 5, 'XX': 6}, nmax=6))
    A(Entry('SIR_pair_based', 'SIR', 'wrapper', ['rho'], _node_level('SIR_pair_based', True), {'Ss': 4, 'Is': 5, 'Rs': 6, 'XY': 7, 'XX': 8}, nmax=6))
    A(Entry('SIR_pair_based_pure_IC', 'SIR', 'wrapper', ['sets'], _node_level('SIR_pair_based_pure_IC', True), {'Ss': 4, 'Is': 5, 'Rs': 6, 'XY': 7, 'XX': 8}, nmax=6))
    # ---- node-level models called with explicit arrays (nodelist, Y0, X0, XY0, XX0) ----
    def pb_arrays(sir):
        def argfn(c, ic):
            nodes = list(ic.nodes)
            n = ic.N
            Y0 = ic.Y0.copy()
            X0 = ic.X0.copy()
            kw = {'nodelist': nodes, 'Y0': Y0, 'XY0': X0[:, None] * Y0[None, :] * getattr(ic, 'xy_factor', 1.0), 'XX0': X0[:, None] * X0[None, :]}
            if c.get('pair_arrays') == 'XY0-only':
                del kw['XX0']           # each of the two is documented with its own default (the independence product)
            elif c.get('pair_arrays') == 'XX0-only' and getattr(ic, 'xy_factor', 1.0) == 1.0:
                del kw['XY0']
            if c.get('f_order'):
                kw = {k: (np.asfortranarray(v) if isinstance(v, np.ndarray) and v.ndim == 2 else v) for k, v in kw.items()}
            if sir:
                kw['X0'] = X0
            return [oracles.build_graph(c['gc']), c['tau'], c['gamma']], kw
        return argfn
    A(Entry('SIS_pair_based[arrays]', 'SIS', 'direct', ['rho', 'sets'], _direct('SIS_pair_based', pb_arrays(False)), {'Ss': 3, 'Is': 4, 'XY': 5, 'XX': 6}, nmax=6))
    A(Entry('SIR_pair_based[arrays]', 'SIR', 'direct', ['rho', 'sets'], _direct('SIR_pair_based', pb_arrays(True)), {'Ss': 4, 'Is': 5, 'Rs': 6, 'XY': 7, 'XX': 8}, nmax=6))

    def ib_arrays(sir):
        def argfn(c, ic):
            kw = {'nodelist': list(ic.nodes), 'Y0': ic.Y0.copy()}
            if sir:
                kw['X0'] = ic.X0.copy()
            return [oracles.build_graph(c['gc']), c['tau'], c['gamma']], kw
        return argfn
    A(Entry('SIS_individual_based[arrays]', 'SIS', 'direct', ['rho', 'sets'], _direct('SIS_individual_based', ib_arrays(False)), {'Ss': 1, 'Is': 2}, nmax=10, aux0='pernode-only'))
    A(Entry('SIR_individual_based[arrays]', 'SIR', 'direct', ['rho', 'sets'], _direct('SIR_individual_based', ib_arrays(True)), {}, nmax=10))
    # ---- graph wrappers ----
    A(Entry('SIS_homogeneous_meanfield_from_graph', 'SIS', 'wrapper', ['rho', 'sets'], _wrapper('SIS_homogeneous_meanfield_from_graph', False, full=False)))
    A(Entry('SIR_homogeneous_meanfield_from_graph', 'SIR', 'wrapper', ['rho', 'sets'], _wrapper('SIR_homogeneous_meanfield_from_graph', True, full=False)))
    A(Entry('SIS_homogeneous_pairwise_from_graph', 'SIS', 'wrapper', ['rho', 'sets'], _wrapper('SIS_homogeneous_pairwise_from_graph', False), {'SI': 3, 'SS': 4, 'II': 5}))
    A(Entry('SIR_homogeneous_pairwise_from_graph', 'SIR', 'wrapper', ['rho', 'sets'], _wrapper('SIR_homogeneous_pairwise_from_graph', True), {'SI': 4, 'SS': 5}))
    A(Entry('SIS_heterogeneous_meanfield_from_graph', 'SIS', 'wrapper', ['rho', 'sets'], _wrapper('SIS_heterogeneous_meanfield_from_graph', False), {'Sk': 3, 'Ik': 4}))
    A(Entry('SIR_heterogeneous_meanfield_from_graph', 'SIR', 'wrapper', ['rho', 'sets'], _wrapper('SIR_heterogeneous_meanfield_from_graph', True), {'Sk': 'any2d'}))
    A(Entry('SIS_heterogeneous_pairwise_from_graph', 'SIS', 'wrapper', ['rho', 'sets'], _wrapper('SIS_heterogeneous_pairwise_from_graph', False), {'SkK': 3, 'IkK': 4, 'SkIl': 5, 'SkSl': 6, 'IkIl': 7}, nmax=10))
    A(Entry('SIR_heterogeneous_pairwise_from_graph', 'SIR', 'wrapper', ['rho', 'sets'], _wrapper('SIR_heterogeneous_pairwise_from_graph', True), {'SkK': 4, 'IkK': 5, 'RkK': 6, 'SkIl': 7, 'SkSl': 8}, nmax=10))
    A(Entry('SIS_compact_pairwise_from_graph', 'SIS', 'wrapper', ['rho', 'sets'], _wrapper('SIS_compact_pairwise_from_graph', False), {'Sk': 3, 'Ik': 4, 'SI': 5, 'SS': 6, 'II': 7}))
    A(Entry('SIR_compact_pairwise_from_graph', 'SIR', 'wrapper', ['rho', 'sets'], _wrapper('SIR_compact_pairwise_from_graph', True), {'Sk': 1, 'SS': 4, 'SI': 5, '_full_sir': (1, 2, 3)}))
    A(Entry('SIS_super_compact_pairwise_from_graph', 'SIS', 'wrapper', ['rho', 'sets'], _wrapper('SIS_super_compact_pairwise_from_graph', False), {'SS': 3, 'SI': 4, 'II': 5}, singular=_ssc_singular))
    A(Entry('SIR_super_compact_pairwise_from_graph', 'SIR', 'wrapper', ['rho', 'sets'], _wrapper('SIR_super_compact_pairwise_from_graph', True), {'SS': 4, 'SI': 5}))
    A(Entry('SIS_effective_degree_from_graph', 'SIS', 'wrapper', ['rho', 'sets'], _wrapper('SIS_effective_degree_from_graph', False), {'S_si': 3, 'I_si': 4}, nmax=9))
    A(Entry('SIR_effective_degree_from_graph', 'SIR', 'wrapper', ['rho', 'sets'], _wrapper('SIR_effective_degree_from_graph', True), {'S_si': 4}, nmax=9))
    A(Entry('SIS_compact_effective_degree_from_graph', 'SIS', 'wrapper', ['rho', 'sets'], _wrapper('SIS_compact_effective_degree_from_graph', False), {'Sk': 3, 'Ik': 4, 'SI': 5, 'SS': 6, 'II': 7}))
    A(Entry('SIR_compact_effective_degree_from_graph', 'SIR', 'wrapper', ['rho', 'sets'], _wrapper('SIR_compact_effective_degree_from_graph', True), {'Skappa': 4, 'SI': 5}))
    A(Entry('EBCM_from_graph', 'SIR', 'wrapper', ['rho', 'sets'], _wrapper('EBCM_from_graph', True), {'theta': 4}))
    A(Entry('EBCM_pref_mix_from_graph', 'SIR', 'wrapper', ['rho'], _wrapper('EBCM_pref_mix_from_graph', True), {}))

    def disc_from_graph(c, ic, G):
        kw = {'tmin': c['dtmin'], 'tmax': c['dtmax']}
        if c['mode'] == 'rho':
            kw['rho'] = c['rho']
        else:
            kw['initial_infecteds'] = list(ic.I0nodes)
            if ic.R0nodes:
                kw['initial_recovereds'] = list(ic.R0nodes)
        return [G, c['p']], kw
    A(Entry('EBCM_discrete_from_graph', 'SIR', 'wrapper', ['rho', 'sets'], _discrete('EBCM_discrete_from_graph', disc_from_graph), {'theta': 4}, discrete=True))
    A(Entry('EBCM_pref_mix_discrete_from_graph', 'SIR', 'wrapper', ['rho'], _discrete('EBCM_pref_mix_discrete_from_graph',
            lambda c, ic, G: ([G, c['p']], {'rho': c['rho'], 'tmin': c['dtmin'], 'tmax': c['dtmax']})), {}, discrete=True))
    # ---- direct solvers fed with hand-counted classes ----
    A(Entry('SIS_homogeneous_meanfield', 'SIS', 'direct', ['rho', 'sets'], _direct('SIS_homogeneous_meanfield', lambda c, ic: ([ic.S0, ic.I0, ic.kave, c['tau'], c['gamma']], {}), full=False)))
    A(Entry('SIR_homogeneous_meanfield', 'SIR', 'direct', ['rho', 'sets'], _direct('SIR_homogeneous_meanfield', lambda c, ic: ([ic.S0, ic.I0, ic.R0, ic.kave, c['tau'], c['gamma']], {}), full=False)))
    A(Entry('SIS_homogeneous_pairwise', 'SIS', 'direct', ['rho', 'sets'], _direct('SIS_homogeneous_pairwise', lambda c, ic: ([ic.S0, ic.I0, ic.SI0, ic.SS0, ic.kave, c['tau'], c['gamma']], {})), {'SI': 3, 'SS': 4, 'II': 5}))
    A(Entry('SIR_homogeneous_pairwise', 'SIR', 'direct', ['rho', 'sets'], _direct('SIR_homogeneous_pairwise', lambda c, ic: ([ic.S0, ic.I0, ic.R0, ic.SI0, ic.SS0, ic.kave, c['tau'], c['gamma']], {})), {'SI': 4, 'SS': 5}))
    A(Entry('SIS_heterogeneous_meanfield', 'SIS', 'direct', ['rho', 'sets'], _direct('SIS_heterogeneous_meanfield', lambda c, ic: ([ic.Sk0.copy(), ic.Ik0.copy(), c['tau'], c['gamma']], {})), {'Sk': 3, 'Ik': 4}))
    A(Entry('SIR_heterogeneous_meanfield', 'SIR', 'direct', ['rho', 'sets'], _direct('SIR_heterogeneous_meanfield', lambda c, ic: ([ic.Sk0.copy(), ic.Ik0.copy(), ic.Rk0.copy(), c['tau'], c['gamma']], {})), {'Sk': 'any2d'}))
    A(Entry('SIS_heterogeneous_pairwise', 'SIS', 'direct', ['rho', 'sets'], _direct('SIS_heterogeneous_pairwise',
            lambda c, ic: ([ic.by_Ks(ic.Sk0), ic.by_Ks(ic.Ik0), _lay(c, ic.SkSl0), _lay(c, ic.SkIl0), _lay(c, ic.IkIl0), c['tau'], c['gamma']], {'Ks': np.array(ic.Ks, dtype=(float if c.get('float_Ks') else int))})),
            {'SkK': 3, 'IkK': 4, 'SkIl': 5, 'SkSl': 6, 'IkIl': 7}, nmax=10))
    A(Entry('SIR_heterogeneous_pairwise', 'SIR', 'direct', ['rho', 'sets'], _direct('SIR_heterogeneous_pairwise',
            lambda c, ic: ([ic.by_Ks(ic.Sk0), ic.by_Ks(ic.Ik0), ic.by_Ks(ic.Rk0), _lay(c, ic.SkSl0), _lay(c, ic.SkIl0), c['tau'], c['gamma']], {'Ks': np.array(ic.Ks, dtype=(float if c.get('float_Ks') else int))})),
            {'SkK': 4, 'IkK': 5, 'RkK': 6, 'SkIl': 7, 'SkSl': 8}, nmax=10))

    # the documented array interface without Ks: arrays indexed by degree 0..kmax, unobserved degrees hold zeros
    def dense2(ic, M):
        out = np.zeros((ic.maxk + 1, ic.maxk + 1))
        for a, ka in enumerate(ic.Ks):
            for b, kb in enumerate(ic.Ks):
                out[ka, kb] = M[a, b]
        return out
    A(Entry('SIS_heterogeneous_pairwise[dense]', 'SIS', 'direct', ['rho', 'sets'], _direct('SIS_heterogeneous_pairwise',
            lambda c, ic: ([ic.Sk0.copy(), ic.Ik0.copy(), dense2(ic, ic.SkSl0), dense2(ic, ic.SkIl0), dense2(ic, ic.IkIl0), c['tau'], c['gamma']], {})), {}, nmax=10))
    A(Entry('SIR_heterogeneous_pairwise[dense]', 'SIR', 'direct', ['rho', 'sets'], _direct('SIR_heterogeneous_pairwise',
            lambda c, ic: ([ic.Sk0.copy(), ic.Ik0.copy(), ic.Rk0.copy(), dense2(ic, ic.SkSl0), dense2(ic, ic.SkIl0), c['tau'], c['gamma']], {})), {}, nmax=10))
    A(Entry('SIS_compact_pairwise', 'SIS', 'direct', ['rho', 'sets'], _direct('SIS_compact_pairwise', lambda c, ic: ([ic.Sk0.copy(), ic.Ik0.copy(), ic.SI0, ic.SS0, ic.II0, c['tau'], c['gamma']], {})), {'Sk': 3, 'Ik': 4, 'SI': 5, 'SS': 6, 'II': 7}))
    A(Entry('SIS_compact_effective_degree', 'SIS', 'direct', ['rho', 'sets'], _direct('SIS_compact_effective_degree', lambda c, ic: ([ic.Sk0.copy(), ic.Ik0.copy(), ic.SI0, ic.SS0, ic.II0, c['tau'], c['gamma']], {})), {'Sk': 3, 'Ik': 4, 'SI': 5, 'SS': 6, 'II': 7}))
    A(Entry('SIR_compact_pairwise', 'SIR', 'direct', ['rho', 'sets'], _direct('SIR_compact_pairwise', lambda c, ic: ([ic.Sk0.copy(), ic.I0, ic.R0, ic.SS0, ic.SI0, c['tau'], c['gamma']], {})), {'Sk': 1, 'SS': 4, 'SI': 5, '_full_sir': (1, 2, 3)}))

    def ssc_args(c, ic):
        k1, k2, k3 = ic.moments()
        return [ic.S0, ic.I0, ic.SS0, ic.SI0, ic.II0, c['tau'], c['gamma'], k1, k2, k3], {}
    A(Entry('SIS_super_compact_pairwise', 'SIS', 'direct', ['rho', 'sets'], _direct('SIS_super_compact_pairwise', ssc_args), {'SS': 3, 'SI': 4, 'II': 5}, singular=_ssc_singular))

    def sir_sc_args(c, ic):
        ph, php, phpp = psi_fns(ic)
        return [ic.R0, ic.SS0, ic.SI0, ic.N, c['tau'], c['gamma'], ph, php, phpp], {}
    A(Entry('SIR_super_compact_pairwise', 'SIR', 'direct', ['rho', 'sets'], _direct('SIR_super_compact_pairwise', sir_sc_args), {'SS': 4, 'SI': 5}))
    A(Entry('SIS_effective_degree', 'SIS', 'direct', ['rho', 'sets'], _direct('SIS_effective_degree', lambda c, ic: ([ic.S_si0.copy(), ic.I_si0.copy(), c['tau'], c['gamma']], {})), {'S_si': 3, 'I_si': 4}, nmax=9))
    A(Entry('SIR_effective_degree', 'SIR', 'direct', ['rho', 'sets'], _direct('SIR_effective_degree', lambda c, ic: ([ic.S_si0.copy(), ic.I0, ic.R0, c['tau'], c['gamma']], {})), {'S_si': 4}, nmax=9))
    A(Entry('SIR_compact_effective_degree', 'SIR', 'direct', ['rho', 'sets'], _direct('SIR_compact_effective_degree', lambda c, ic: ([ic.Skappa0.copy(), ic.I0, ic.R0, ic.SI0, c['tau'], c['gamma']], {})), {'Skappa': 4, 'SI': 5}))

    def ebcm_args(c, ic):
        ph, php, _ = psi_fns(ic)
        return [ic.N, ph, php, c['tau'], c['gamma'], ic.phiS0], {'phiR0': ic.phiR0, 'R0': ic.R0}
    A(Entry('EBCM', 'SIR', 'direct', ['rho', 'sets'], _direct('EBCM', ebcm_args), {'theta': 4}))

    def ebcm_ui_args(c, ic):
        psi, psiP = psi_plain(ic)
        return [ic.N, psi, psiP, c['tau'], c['gamma'], c['rho']], {}
    A(Entry('EBCM_uniform_introduction', 'SIR', 'direct', ['rho'], _direct('EBCM_uniform_introduction', ebcm_ui_args), {'theta': 4}))
    A(Entry('EBCM_pref_mix', 'SIR', 'direct', ['rho'], _direct('EBCM_pref_mix', lambda c, ic: ([ic.N, ic.Pk(c.get('dense_Pk')), Pnk_of(ic, c.get('pnk_defaultdict')), c['tau'], c['gamma']], {'rho': c['rho']})), {}))

    def ebcm_d_args(c, ic, G):
        ph, php, _ = psi_fns(ic)
        return [ic.N, ph, php, c['p'], ic.phiS0], {'phiR0': ic.phiR0, 'R0': ic.R0, 'tmin': c['dtmin'], 'tmax': c['dtmax']}
    A(Entry('EBCM_discrete', 'SIR', 'direct', ['rho', 'sets'], _discrete('EBCM_discrete', ebcm_d_args), {'theta': 4}, discrete=True))

    def ebcm_dui_args(c, ic, G):
        psi, psiP = psi_plain(ic)
        return [ic.N, psi, psiP, c['p'], c['rho']], {'tmax': c['dtmax'] - c['dtmin']}
    A(Entry('EBCM_discrete_uniform_introduction', 'SIR', 'direct', ['rho'], _discrete('EBCM_discrete_uniform_introduction', ebcm_dui_args), {'theta': 4}, discrete='tmin0'))
    A(Entry('EBCM_pref_mix_discrete', 'SIR', 'direct', ['rho'], _discrete('EBCM_pref_mix_discrete',
            lambda c, ic, G: ([ic.N, ic.Pk(c.get('dense_Pk')), Pnk_of(ic, c.get('pnk_defaultdict')), c['p']], {'rho': c['rho'], 'tmin': c['dtmin'], 'tmax': c['dtmax']})), {}, discrete=True))
    return E


ENTRIES = {e.name: e for e in entries()}


def expected_aux(ic, key):
    """hand-counted initial value of an auxiliary series"""
    idx = {u: i for i, u in enumerate(ic.nodes)}
    if key == 'Ss':
        return ic.X0
    if key == 'Is':
        return ic.Y0
    if key == 'Rs':
        return 1 - ic.X0 - ic.Y0
    if key in ('XY', 'XX'):
        XY, XX = ic.pair_matrices()
        return XY if key == 'XY' else XX
    if key in ('SI', 'SS', 'II'):
        return {'SI': ic.SI0, 'SS': ic.SS0, 'II': ic.II0}[key]
    if key in ('Sk', 'Ik', 'Rk'):
        return {'Sk': ic.Sk0, 'Ik': ic.Ik0, 'Rk': ic.Rk0}[key]
    if key in ('SkK', 'IkK', 'RkK'):
        return ic.by_Ks({'SkK': ic.Sk0, 'IkK': ic.Ik0, 'RkK': ic.Rk0}[key])
    if key in ('SkSl', 'SkIl', 'IkIl'):
        return {'SkSl': ic.SkSl0, 'SkIl': ic.SkIl0, 'IkIl': ic.IkIl0}[key]
    if key == 'S_si':
        return ic.S_si0
    if key == 'I_si':
        return ic.I_si0
    if key == 'Skappa':
        return ic.Skappa0
    if key == 'theta':
        return 1.0
    raise KeyError(key)


# ---------------------------------------------------------------------------
# generated cases
# ---------------------------------------------------------------------------

@st.composite
def analytic_case(draw, names=None, nmax=12, need_edge=True, modes=('rho', 'sets'), labels=('int', 'perm', 'str', 'tuple'),
                  rates=None, family=None, depletion_cap=3.0, selfloops=False, weights=False, dense=False):
    name = draw(st.sampled_from(sorted(names or ENTRIES)))
    e = ENTRIES[name]
    n_hi = min(nmax, e.nmax)
    gc = draw(gen.graph_case(2, n_hi, labels=labels, weighted=False, family=family))
    if need_edge and not gc['edges']:
        gc['edges'] = [[gc['nodes'][0], gc['nodes'][1]]]
    if draw(st.integers(0, 3)) == 0 and len(gc['nodes']) >= 3:
        # make sure a degree-0 class exists fairly often: drop every edge of one node (keeping at least one edge overall)
        victim = oracles.tolabel(gc['nodes'][-1])
        kept = [e for e in gc['edges'] if victim not in (oracles.tolabel(e[0]), oracles.tolabel(e[1]))]
        if kept:
            gc['edges'] = kept
    ok_modes = [m for m in e.modes if m in modes]
    mode = draw(st.sampled_from(ok_modes))
    rs = rates or st.one_of(st.sampled_from([0.0, 0.5, 1.0, 2.0]), st.floats(0.05, 3.0, allow_nan=False))
    tmin = draw(st.sampled_from([0, 0, -1.5, 2.0]))
    case = {'entry': name, 'gc': gc, 'mode': mode, 'tau': draw(rs), 'gamma': draw(rs),
            'p': draw(st.sampled_from([0.0, 0.3, 0.5, 0.8, 1.0])),
            'rho': draw(st.sampled_from([0.05, 0.0, 0.1, 0.25, 0.5, 0, 0.01, 0.6, 0.1, 0.25])),      # 0: nobody infected (degenerate, tmin row only)
            'tmin': tmin, 'tmax': tmin + draw(st.sampled_from([1.0, 2.5, 5.0])), 'tcount': draw(st.sampled_from([2, 3, 6, 11])),
            'dtmin': draw(st.sampled_from([0, 0, 1, -2])), 'I0': [], 'R0': [], 'float_Ks': draw(st.booleans())}
    case['dtmax'] = case['dtmin'] + draw(st.integers(1, 6))
    if selfloops and draw(st.integers(0, 3)) == 0:
        # only for checks that compare two runs of the same entry point (the hand counters of this module ignore loops)
        loops = [u for u in gc['nodes'] if draw(st.integers(0, 2)) == 0]
        gc['edges'] = gc['edges'] + [[u, u] for u in loops]
        if loops:
            gc['selfloops'] = True
    if depletion_cap:
        # closures divide by [S], [SS], sum_k k[S_k]: keep every susceptible class above e^-cap of its initial size for the
        # whole run (hazard of a degree-k node is at most tau*k), otherwise late-time 0/0 noise is not a code property
        nodes_, adj_ = oracles.adjacency(gc)
        kmax = max(len(adj_[u]) for u in nodes_)
        if case['tau'] * kmax * (case['tmax'] - case['tmin']) > depletion_cap:
            case['tmax'] = case['tmin'] + depletion_cap / (case['tau'] * kmax)
    if mode == 'sets':
        sir = e.model == 'SIR'
        I0, R0 = draw(gen.initial_sets(gc['nodes'], allow_R=sir))
        case['I0'], case['R0'] = I0, R0
        case['I0form'] = draw(st.sampled_from(['list', 'list', 'tuple', 'set', 'frozenset', 'dictkeys', 'array']))
        case['R0form'] = draw(st.sampled_from(['list', 'list', 'tuple', 'set', 'frozenset']))
    if mode == 'rho' and e.level == 'wrapper' and '_from_graph' in name and not e.discrete and 'pref_mix' not in name and draw(st.integers(0, 4)) == 0:
        case['rho_default'] = True       # rho omitted: the documented default 1/N
        case['rho'] = 1.0 / len(gc['nodes'])
    if weights and ('individual_based' in name or 'pair_based' in name) and '[' not in name and draw(st.booleans()):
        # edge / node attributes scaling the transmission and recovery rates of the node-level models
        wp = st.sampled_from([0.25, 0.5, 1.0, 1.5, 2.0])
        gc['ew'] = {'w': [draw(wp) for _ in gc['edges']]}
        gc['nw'] = {'rw': [draw(wp) for _ in gc['nodes']]}
        case['nl_weights'] = draw(st.sampled_from(['both', 'both', 'transmission', 'recovery']))
        case['tmax'] = case['tmin'] + (case['tmax'] - case['tmin']) / 2.0       # hazards up to twice as large
    if gc.get('ew') is None and e.level == 'wrapper' and draw(st.integers(0, 3)) == 0:
        # unrelated attributes named 'weight' on the graph; no weight option is passed, so they must be ignored
        wp2 = st.sampled_from([0.25, 0.5, 2.0, 3.0])
        gc['ew'] = {'weight': [draw(wp2) for _ in gc['edges']]}
        gc['nw'] = {'weight': [draw(wp2) for _ in gc['nodes']]}
        case['stray_weight_attributes'] = True
    if 'heterogeneous_pairwise' in name and e.level == 'direct' or name.endswith('pair_based[arrays]'):
        case['f_order'] = draw(st.integers(0, 2)) == 0
    if name.endswith('pair_based[arrays]'):
        case['pair_arrays'] = draw(st.sampled_from(['both', 'both', 'XY0-only', 'XX0-only']))
        if mode == 'rho' and draw(st.booleans()):
            case['xy_factor'] = 0.8             # a consistent, negatively correlated initial state: <X_i Y_j> = 0.8 X_i Y_j on the edges
    if name in ('EBCM_pref_mix', 'EBCM_pref_mix_discrete'):
        case['pnk_defaultdict'] = draw(st.booleans())
        if dense:
            case['dense_Pk'] = draw(st.booleans())
    if ('individual_based' in name or 'pair_based' in name) and '[' not in name and draw(st.booleans()):
        case['nodelist_perm'] = list(draw(st.permutations(list(range(len(gc['nodes']))))))    # explicit nodelist, caller's order
    return case


def make_ic(case):
    ic = _make_ic(case)
    if case.get('xy_factor'):
        ic.xy_factor = case['xy_factor']
    return ic


def _make_ic(case):
    e = ENTRIES[case['entry']]
    if case['mode'] == 'rho':
        rho = case['rho']
        if case.get('rho_default') and e.level == 'wrapper' and '_from_graph' in e.name and not e.discrete:
            rho = 1.0 / len(case['gc']['nodes'])
        return IC(case['gc'], rho=rho, sis=e.model == 'SIS')
    return IC(case['gc'], I0=case['I0'], R0=case['R0'], sis=e.model == 'SIS')


def call_entry(case, rfd, G=None, ic=None):
    import EoN
    e = ENTRIES[case['entry']]
    if G is None:
        G = oracles.build_graph(case['gc'])
    if ic is None:
        ic = make_ic(case)
    f, args, kw = e.build(EoN, G, case, ic, rfd)
    return f(*args, **kw), (f, args, kw)
