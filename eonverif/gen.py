"""E4 - generators (Hypothesis strategies built by construction) and ordered enumerations."""
import itertools
from hypothesis import strategies as st

WPOOL = [0.25, 0.5, 1.0, 2.0, 3.0]
ELABELS = ['weight', 'w', 'tw', '']          # '' : a legal but falsy attribute name (`if not label` is not `label is None`)
NLABELS = ['rw', 'nw', '']


def all_graphs(n):
    """every labelled simple graph on nodes 0..n-1 (edge lists), smallest first"""
    pairs = list(itertools.combinations(range(n), 2))
    for m in range(len(pairs) + 1):
        for es in itertools.combinations(pairs, m):
            yield [list(e) for e in es]


def all_status_assignments(n, statuses='SIR', need='I'):
    for tup in itertools.product(statuses, repeat=n):
        if need is None or need in tup:
            yield tup


def det_weights(k, shift=0):
    pool = [2.0, 0.5, 3.0, 1.0, 0.25, 1.5]
    return [pool[(i + shift) % len(pool)] for i in range(k)]


@st.composite
def label_scheme(draw, n, kinds=('int', 'perm', 'str', 'tuple', 'mixed')):
    kind = draw(st.sampled_from(list(kinds)))
    if kind == 'int':
        return list(range(n))
    if kind == 'perm':
        p_ = list(draw(st.permutations(list(range(n)))))
        if draw(st.integers(0, 3)) == 0:
            p_ = [1000 + 7 * i for i in p_]        # ints beyond CPython's small-int cache: equal labels need not be identical objects
        return p_
    if kind == 'str':
        names = ['a', 'b', 'c', 'd', 'e', 'f', 'g', 'h', 'i', 'j', 'k', 'l', 'm', 'n', 'o', 'p', 'q', 'r', 's', 't',
                 'u', 'v', 'w', 'x', 'y', 'z', 'aa', 'bb', 'cc', 'dd', 'ee', 'ff', 'gg', 'hh', 'ii', 'jj', 'kk', 'll', 'mm', 'nn']
        return list(draw(st.permutations(names[:n])))
    if kind == 'tuple':
        return [[i // 3, i % 3] for i in draw(st.permutations(list(range(n))))]
    out = []
    for i in draw(st.permutations(list(range(n)))):
        out.append([i, 'x'] if i % 3 == 0 else ('n%d' % i if i % 3 == 1 else i + 10))
    return out


@st.composite
def edge_list(draw, n, family=None, max_extra=None):
    """edges over indices 0..n-1"""
    if n <= 1:
        return []
    fam = family or draw(st.sampled_from(['random', 'random', 'random', 'path', 'star', 'cycle', 'complete', 'tree', 'sparse', 'hub']))
    pairs = list(itertools.combinations(range(n), 2))
    if fam == 'path':
        es = [(i, i + 1) for i in range(n - 1)]
    elif fam == 'star':
        es = [(0, i) for i in range(1, n)]
    elif fam == 'cycle':
        es = [(i, (i + 1) % n) for i in range(n)] if n >= 3 else [(0, 1)]
    elif fam == 'complete':
        es = pairs
    elif fam == 'tree':
        es = [(draw(st.integers(0, i - 1)), i) for i in range(1, n)]
    elif fam == 'hub':          # one node adjacent to (almost) everybody, few other edges: two very different degree values
        full = draw(st.booleans())
        es = [(0, i) for i in range(1, n) if full or draw(st.integers(0, 9)) > 0] + [p for p in pairs if p[0] != 0 and draw(st.integers(0, 7)) == 0]
    elif fam == 'sparse':
        es = [p for p in pairs if draw(st.integers(0, 3)) == 0]
    else:
        es = [p for p in pairs if draw(st.booleans())]
    es = sorted(set(tuple(sorted(e)) for e in es))
    return [list(e) for e in es]


@st.composite
def graph_case(draw, nmin=1, nmax=6, labels=('int',), weighted=None, family=None, directed=False,
               shuffle=True, wpool=None, selfloops=False):
    """-> {'nodes','edges','ew','nw','directed'} with labels applied; insertion order shuffled."""
    n = draw(st.integers(nmin, nmax))
    lab = draw(label_scheme(n, labels))
    es = draw(edge_list(n, family))
    if directed:
        es2 = []
        for (a, b) in es:
            o = draw(st.integers(0, 2))
            if o in (0, 2):
                es2.append([a, b])
            if o in (1, 2):
                es2.append([b, a])
        es = es2
    elif shuffle:
        es = [[b, a] if draw(st.booleans()) else [a, b] for a, b in es]
    if selfloops and draw(st.integers(0, 2)) == 0:
        for i in range(n):
            if draw(st.integers(0, 2)) == 0:
                es.append([i, i])
    if shuffle and es:
        es = list(draw(st.permutations(es)))
    order = list(range(n))
    if shuffle and n > 1:
        order = list(draw(st.permutations(order)))
    nodes = [lab[i] for i in order]
    edges = [[lab[a], lab[b]] for a, b in es]
    gc = {'nodes': nodes, 'edges': edges, 'ew': None, 'nw': None, 'directed': bool(directed)}
    if any(a == b for a, b in es):
        gc['selfloops'] = True
    w = draw(st.booleans()) if weighted is None else weighted
    pool = wpool or WPOOL
    if w:
        el = draw(st.sampled_from(ELABELS))
        gc['ew'] = {el: [draw(st.one_of(st.sampled_from(pool), st.floats(0.05, 20.0, allow_nan=False))) for _ in edges]}
        nl = draw(st.sampled_from(NLABELS))
        gc['nw'] = {nl: [draw(st.one_of(st.sampled_from(pool), st.floats(0.05, 20.0, allow_nan=False))) for _ in nodes]}
    return gc


@st.composite
def initial_sets(draw, nodes, allow_R=True, min_I=1, max_I=None):
    """disjoint (I0, R0) lists of labels"""
    n = len(nodes)
    stat = [draw(st.sampled_from('SSIR' if allow_R else 'SSI')) for _ in range(n)]
    corner = draw(st.integers(0, 19))
    if corner == 0 and max_I is None:
        stat = ['I'] * n                                    # everybody infected at the start
    elif corner == 1 and allow_R and n >= 2 and max_I is None:
        stat = ['R'] * n                                    # one infected node in an otherwise immune population
        stat[draw(st.integers(0, n - 1))] = 'I'
    if stat.count('I') < min_I:
        for i in draw(st.permutations(list(range(n))))[:min_I]:
            stat[i] = 'I'
    if max_I is not None:
        idx = [i for i in range(n) if stat[i] == 'I']
        for i in idx[max_I:]:
            stat[i] = 'S'
    I0 = [nodes[i] for i in range(n) if stat[i] == 'I']
    R0 = [nodes[i] for i in range(n) if stat[i] == 'R']
    return I0, R0


rates = st.one_of(st.sampled_from([0.0, 0.5, 1.0, 2.0]), st.floats(0.05, 5.0, allow_nan=False))
pos_rates = st.one_of(st.sampled_from([0.5, 1.0, 2.0]), st.floats(0.05, 5.0, allow_nan=False))
