"""E2 - oracles written independently of EoN: CTMC event sets / master equation, Reed-Frost chains,
first-passage percolation, reference SIS event list, brute-force reachability, hand counters."""
import math
import itertools
import heapq
import numpy as np
import networkx as nx

INF = float('inf')


# ---------------------------------------------------------------------------
# graph cases  (JSON-able dict  <->  networkx graph)
# ---------------------------------------------------------------------------

def tolabel(x):
    """JSON stores tuples as lists; node labels must be hashable."""
    if isinstance(x, list):
        return tuple(tolabel(y) for y in x)
    return x


def _fresh(x):
    if isinstance(x, tuple):
        return tuple(_fresh(y) for y in x) if x else x
    if isinstance(x, str) and len(x) > 1:
        return ''.join(list(x))
    if isinstance(x, int) and not isinstance(x, bool) and abs(x) > 256:
        return int(str(x))
    return x


def build_graph(gc, directed=False):
    """gc: {'nodes': [labels], 'edges': [[u,v]...], 'ew': {label: [w per edge]}|None, 'nw': {label: [w per node]}|None}"""
    G = nx.DiGraph() if directed or gc.get('directed') else nx.Graph()
    nodes = [tolabel(u) for u in gc['nodes']]
    G.add_nodes_from(nodes)
    for i, e in enumerate(gc['edges']):
        # edge endpoints are equal to the node labels but not the same Python objects (what read_edgelist, grid graphs or any
        # code that rebuilds labels produces): label comparisons by identity must not work by accident
        G.add_edge(_fresh(tolabel(e[0])), _fresh(tolabel(e[1])))
    for lab, ws in (gc.get('ew') or {}).items():
        for e, w in zip(gc['edges'], ws):
            G.adj[tolabel(e[0])][tolabel(e[1])][lab] = w
    for lab, ws in (gc.get('nw') or {}).items():
        for u, w in zip(nodes, ws):
            G.nodes[u][lab] = w
    return G


def edge_weight_fn(gc, label):
    if label is None:
        return lambda u, v: 1.0
    tab = {}
    for e, w in zip(gc['edges'], gc['ew'][label]):
        u, v = tolabel(e[0]), tolabel(e[1])
        tab[(u, v)] = w
        if not gc.get('directed'):
            tab[(v, u)] = w
    return lambda u, v: tab[(u, v)]


def node_weight_fn(gc, label):
    if label is None:
        return lambda u: 1.0
    tab = {tolabel(u): w for u, w in zip(gc['nodes'], gc['nw'][label])}
    return lambda u: tab[u]


def adjacency(gc):
    """successor lists (both directions for undirected), in a fixed order"""
    nodes = [tolabel(u) for u in gc['nodes']]
    adj = {u: [] for u in nodes}
    for e in gc['edges']:
        u, v = tolabel(e[0]), tolabel(e[1])
        if u == v:
            continue            # a self-loop is part of the graph given to EoN but no node can act on itself
        if v not in adj[u]:
            adj[u].append(v)
        if not gc.get('directed') and u not in adj[v]:
            adj[v].append(u)
    return nodes, adj


# ---------------------------------------------------------------------------
# CTMC event sets  (state = dict node -> status)
# ---------------------------------------------------------------------------

def sir_events(state, adj, tau, gamma, ew, nw, sis=False):
    """{(node, new_status, source): rate} for the network SIR (or SIS) chain; zero-rate events are omitted."""
    ev = {}
    for u, s in state.items():
        if s != 'I':
            continue
        r = gamma * nw(u)
        if r > 0:
            ev[(u, 'S' if sis else 'R', None)] = r
        for v in adj[u]:
            if state[v] == 'S':
                r = tau * ew(u, v)
                if r > 0:
                    ev[(v, 'I', u)] = ev.get((v, 'I', u), 0.0) + r
    return ev


def apply_event(state, key):
    s = dict(state)
    s[key[0]] = key[1]
    return s


def state_key(state, nodes):
    return ''.join(state[u] if len(state[u]) == 1 else '<%s>' % state[u] for u in nodes)


class Chain(object):
    """Reachable part of a finite CTMC given by events(state)->{key: rate} (key[0]=node, key[1]=new status)."""

    def __init__(self, nodes, init, events, max_states=20000):
        self.nodes = nodes
        self.index = {}
        self.states = []
        self.trans = []     # per state: list of (j, rate)
        todo = [init]
        self._add(init)
        while todo:
            s = todo.pop()
            i = self.index[tuple(s[u] for u in nodes)]
            agg = {}
            for key, rate in events(s).items():
                s2 = apply_event(s, key)
                k2 = tuple(s2[u] for u in nodes)
                if k2 not in self.index:
                    if len(self.states) >= max_states:
                        raise ValueError('chain too large')
                    self._add(s2)
                    todo.append(s2)
                agg[self.index[k2]] = agg.get(self.index[k2], 0.0) + rate
            self.trans[i] = sorted(agg.items())

    def _add(self, s):
        self.index[tuple(s[u] for u in self.nodes)] = len(self.states)
        self.states.append(dict(s))
        self.trans.append([])

    def generator(self):
        n = len(self.states)
        Q = np.zeros((n, n))
        for i, lst in enumerate(self.trans):
            for j, r in lst:
                if j != i:
                    Q[i, j] += r
                    Q[i, i] -= r
        return Q

    def law_at(self, times):
        """list of probability vectors p(T) for each T (time since start), initial state = index 0."""
        from scipy.linalg import expm
        Q = self.generator()
        out = []
        for T in times:
            P = expm(Q * T)
            out.append(np.clip(P[0], 0.0, 1.0))
        return out

    def absorbing_law(self):
        """P(absorbed in state i) starting from state 0 (jump chain; requires every path to be absorbed)."""
        n = len(self.states)
        tot = [sum(r for j, r in lst if j != i) for i, lst in enumerate(self.trans)]
        transient = [i for i in range(n) if tot[i] > 0]
        if not transient:
            v = np.zeros(n); v[0] = 1.0
            return v
        tindex = {i: k for k, i in enumerate(transient)}
        A = np.eye(len(transient))
        B = np.zeros((len(transient), n))
        for i in transient:
            for j, r in self.trans[i]:
                if j == i:
                    continue
                p = r / tot[i]
                if j in tindex:
                    A[tindex[i], tindex[j]] -= p
                else:
                    B[tindex[i], j] += p
        if 0 not in tindex:
            v = np.zeros(n); v[0] = 1.0
            return v
        X = np.linalg.solve(A, B)
        return np.clip(X[tindex[0]], 0.0, 1.0)

    def expected_counts(self, times, statuses=('S', 'I', 'R')):
        laws = self.law_at(times)
        out = {s: [] for s in statuses}
        for p in laws:
            for s in statuses:
                out[s].append(sum(pi * sum(1 for u in self.nodes if st[u] == s) for pi, st in zip(p, self.states)))
        return out


# ---------------------------------------------------------------------------
# Reed-Frost / discrete SIS chains
# ---------------------------------------------------------------------------

def reed_frost_step(state, adj, p, sis=False):
    """law over next node-state tuples: {tuple(status per node in adj order): prob}"""
    nodes = list(adj)
    inf = [u for u in nodes if state[u] == 'I']
    sus = [u for u in nodes if state[u] == 'S']
    probs = []
    for v in sus:
        m = sum(1 for u in inf if v in adj[u])
        probs.append(1.0 - (1.0 - p) ** m)
    out = {}
    for bits in itertools.product((0, 1), repeat=len(sus)):
        pr = 1.0
        for b, q in zip(bits, probs):
            pr *= q if b else (1.0 - q)
        if pr <= 0.0:
            continue
        s2 = dict(state)
        for u in inf:
            s2[u] = 'S' if sis else 'R'
        for b, v in zip(bits, sus):
            if b:
                s2[v] = 'I'
        k = tuple(s2[u] for u in nodes)
        out[k] = out.get(k, 0.0) + pr
    return out


def reed_frost_run_law(init, adj, p, tmin, tmax, sis=False, max_steps=50):
    """law over complete trajectories (tuple of node-state tuples, one per time step) as produced by a loop
    `while infecteds and t[-1] < tmax`."""
    nodes = list(adj)
    start = tuple(init[u] for u in nodes)
    paths = {(start,): 1.0}
    done = {}
    t = tmin
    steps = 0
    while paths:
        nxt = {}
        for traj, pr in paths.items():
            cur = dict(zip(nodes, traj[-1]))
            if not any(s == 'I' for s in traj[-1]) or not (t < tmax):
                done[traj] = done.get(traj, 0.0) + pr
                continue
            for k, q in reed_frost_step(cur, adj, p, sis).items():
                nxt[traj + (k,)] = nxt.get(traj + (k,), 0.0) + pr * q
        paths = nxt
        t += 1
        steps += 1
        if steps > max_steps:
            raise ValueError('trajectory law did not terminate')
    return done


# ---------------------------------------------------------------------------
# first-passage percolation (C11)
# ---------------------------------------------------------------------------

def first_passage(nodes, adj, delay, duration, I0, R0, tmin, tmax):
    """Dijkstra on the directed graph keeping u->v iff delay(u,v) <= duration(u); R0 removed.
    Returns (inf_time: dict, rec_time: dict, preds: dict node -> set of admissible infectors) for events < tmax.
    Additions are done as time_of_source + delay (the order the event engine uses)."""
    dist = {u: INF for u in nodes}
    preds = {u: set() for u in nodes}
    removed = set(R0)
    heap = []
    cnt = 0
    for u in I0:
        dist[u] = tmin
        preds[u] = {None}
        heapq.heappush(heap, (tmin, cnt, u)); cnt += 1
    done = set()
    while heap:
        d, _, u = heapq.heappop(heap)
        if u in done or d > dist[u]:
            continue
        done.add(u)
        du = duration[u]
        for v in adj[u]:
            if v in removed or v in I0:
                continue
            dl = delay[(u, v)]
            if not (dl <= du):
                continue
            t = d + dl
            if t < dist[v]:
                dist[v] = t
                preds[v] = {u}
                heapq.heappush(heap, (t, cnt, v)); cnt += 1
            elif t == dist[v] and t < INF:
                preds[v].add(u)
    inf_time = {u: d for u, d in dist.items() if d < tmax and d < INF}
    rec_time = {}
    for u, d in inf_time.items():
        r = d + duration[u]
        if r < tmax and r < INF:
            rec_time[u] = r
    return inf_time, rec_time, {u: preds[u] for u in inf_time}


# ---------------------------------------------------------------------------
# brute-force reachability (C17)
# ---------------------------------------------------------------------------

def reach(succ, src):
    seen = {src}
    stack = [src]
    while stack:
        u = stack.pop()
        for v in succ[u]:
            if v not in seen:
                seen.add(v)
                stack.append(v)
    return seen


def sccs(nodes, succ):
    r = {u: reach(succ, u) for u in nodes}
    comps = []
    seen = set()
    for u in nodes:
        if u in seen:
            continue
        c = frozenset(v for v in r[u] if u in r[v])
        comps.append(c)
        seen |= c
    return comps, r
