"""C10 - full-data object and plain time series describe the same epidemic.

Each generated case is executed twice with identical seeds (arrays, full data).  Continuous time: summary(), t(),
S(), I(), R() equal the arrays (rows with equal times collapsed - only scripted ties).  Discrete time (deterministic
rule: p in {0,1} or a table rule): counts of get_statuses(time=t_i) equal every array row.  Histories start at tmin,
are time-ordered and make only legal moves; node_status / get_statuses at generated query times (at change times,
between them, beyond the end) equal a naive 'last change <= t' scan; summary(nodelist) for random subsets equals
counting over those histories.
"""
import random
from hypothesis import strategies as st

from ..runner import Failure, Result, run_hypothesis, exc_signature, CallBudget, RunawayError
from .. import simrun, oracles, gen

ID = 'C10'
LEVEL = 'exploration'
INF = float('inf')


def collapse(t, rows):
    """keep the last row of each run of equal times"""
    ot, orows = [], []
    for a, r in zip(t, rows):
        if ot and ot[-1] == a:
            orows[-1] = r
        else:
            ot.append(a); orows.append(r)
    return ot, orows


def naive_status(hist, t):
    ts, ss = hist
    cur = None
    for a, s in zip(ts, ss):
        if a <= t:
            cur = s
    return cur


def prop_case(case):
    sim = case['sim']
    fails = []
    sts = simrun.statuses_of(case)
    nodes = [oracles.tolabel(u) for u in case['gc']['nodes']]
    tmin = case['tmin']
    disc = sim in simrun.DISCRETE
    try:
        arr = simrun.call(case, False, budget=CallBudget(200000))
        full = simrun.call(case, True, budget=CallBudget(200000))
    except RunawayError as e:
        return Result([Failure('%s:non-termination' % sim, str(e))])
    except Exception as e:
        return Result([Failure('%s:exception:%s' % (sim, exc_signature(e)), 'call raised %r' % (e,))])
    ta, Da = simrun.as_series(case, arr, False)
    rows_a = list(zip(*[Da[s] for s in sts]))
    try:
        tf, Df = simrun.as_series(case, full, True)
        rows_f = list(zip(*[Df[s] for s in sts]))
    except Exception as e:
        return Result([Failure('%s:summary:exception:%s' % (sim, exc_signature(e)), 'summary() raised %r' % (e,))])
    hist = {u: (list(full.node_history(u)[0]), list(full.node_history(u)[1])) for u in nodes}
    if not disc:
        ca, cr = collapse(ta, rows_a)
        if (ca, cr) != (tf, rows_f):
            k = next((i for i in range(min(len(ca), len(tf))) if ca[i] != tf[i] or cr[i] != rows_f[i]), min(len(ca), len(tf)))
            fails.append(Failure('%s:summary-differs-from-arrays' % sim,
                                 'same seed: arrays have %d rows, summary %d; first difference at row %d: arrays %r vs summary %r'
                                 % (len(ca), len(tf), k, (ca[k:k + 1], cr[k:k + 1]), (tf[k:k + 1], rows_f[k:k + 1]))))
    else:
        for i, a in enumerate(ta):
            if a > simrun.tmax_of(case):
                continue
            stt = full.get_statuses(nodes, a)
            vals = list(stt.values())
            row = tuple(vals.count(s) for s in sts)
            if row != rows_a[i]:
                fails.append(Failure('%s:statuses-differ-from-array-row' % sim,
                                     'same seed: at t=%r get_statuses counts %r, array row %r' % (a, dict(zip(sts, row)), dict(zip(sts, rows_a[i])))))
                break
        extra = [x for x in tf if x not in ta]
        if extra:
            fails.append(Failure('%s:summary-time-not-in-arrays' % sim, 'summary has times %r that are not array rows' % (extra[:4],)))
    # accessors agree with summary
    try:
        acc_t = [float(x) for x in full.t()]
        if acc_t != tf:
            fails.append(Failure('%s:t()-differs-from-summary' % sim, 't() != summary()[0]'))
        for s, fn in (('S', full.S), ('I', full.I), ('R', full.R)):
            if s in sts:
                if [int(x) for x in fn()] != Df[s]:
                    fails.append(Failure('%s:%s()-differs-from-summary' % (sim, s), '%s() != summary()[1][%r]' % (s, s)))
    except Exception as e:
        fails.append(Failure('%s:accessor:exception:%s' % (sim, exc_signature(e)), 'S()/I()/R()/t() raised %r' % (e,)))
    # histories
    moves = simrun.legal_moves(case)
    init = simrun.initial_status(case)
    scripted = (case.get('rule') or {}).get('kind') == 'table'
    coarse = abs(tmin) >= 1e8           # float clock at |t| >= 1e8 (spacing >= 1.5e-8): two changes of one node can share an instant
    for u in nodes:
        ts, ss = hist[u]
        if not scripted and ts and (ss[0] != init[u] or any(b <= a for a, b in zip(ts, ts[1:])) and not disc and not coarse):
            fails.append(Failure('%s:history-first-entry' % sim, 'history of %r is %r: it should start with the initial status %r at tmin and '
                                 '(continuous time, real RNG) have strictly increasing times' % (u, hist[u], init[u])))
            break
        if not ts or ts[0] != tmin:
            fails.append(Failure('%s:history-start' % sim, 'history of %r starts at %r, tmin=%r: %r' % (u, ts[:1], tmin, hist[u])))
            break
        if any(b < a for a, b in zip(ts, ts[1:])):
            fails.append(Failure('%s:history-order' % sim, 'history of %r not time-ordered: %r' % (u, hist[u])))
            break
        bad = [(a, b) for a, b in zip(ss, ss[1:]) if (a, b) not in moves]
        if bad:
            fails.append(Failure('%s:history-illegal-move' % sim, 'history of %r makes move %r: %r' % (u, bad[0], hist[u])))
            break
    # query times
    rnd = random.Random(case['seed'] ^ 0x5bd1)
    change_times = sorted(set(a for u in nodes for a in hist[u][0]))
    qs = [tmin, tmin + 0.1]
    for _ in range(6):
        if change_times and rnd.random() < 0.6:
            a = rnd.choice(change_times)
            qs.append(a if rnd.random() < 0.6 else a + rnd.choice([0.001, 0.5]))
        else:
            qs.append(tmin + rnd.random() * 5)
    qs.append((change_times[-1] if change_times else tmin) + 10.0)
    for q in qs:
        try:
            stt = full.get_statuses(nodes, q)
            bad = [(u, stt[u], naive_status(hist[u], q)) for u in nodes if stt[u] != naive_status(hist[u], q)]
            if bad:
                fails.append(Failure('%s:get_statuses' % sim, 'get_statuses(time=%r): node %r -> %r, latest change at or before that time gives %r (history %r)'
                                     % (q, bad[0][0], bad[0][1], bad[0][2], hist[bad[0][0]])))
                break
            bad = [u for u in nodes if full.node_status(u, q) != naive_status(hist[u], q)]
            if bad:
                u = bad[0]
                fails.append(Failure('%s:node_status' % sim, 'node_status(%r, %r)=%r, history %r' % (u, q, full.node_status(u, q), hist[u])))
                break
        except Exception as e:
            fails.append(Failure('%s:query:exception:%s' % (sim, exc_signature(e)), 'status query at %r raised %r' % (q, e)))
            break
    # subset summary
    k = rnd.randint(1, len(nodes))
    subset = rnd.sample(nodes, k)
    if all(hist[u][1][0] not in sts for u in subset):
        subset = subset + [u for u in nodes if hist[u][1][0] in sts][:1]       # at least one node that carries a reported status
    try:
        form = rnd.choice(['list', 'list', 'tuple', 'iter', 'generator', 'set'])      # 'the nodes that we want to focus on': any iterable, also one-shot
        given = {'list': list(subset), 'tuple': tuple(subset), 'iter': iter(list(subset)), 'generator': (u for u in list(subset)),
                 'set': set(subset)}[form]
        st_, Ds = full.summary(given)
        st_ = [float(x) for x in st_]
        times = sorted(set(a for u in subset for a in hist[u][0]))
        want = {s: [sum(1 for u in subset if naive_status(hist[u], a) == s) for a in times] for s in sts}
        got = {s: [int(x) for x in Ds[s]] for s in sts}
        if st_ != times or got != want:
            fails.append(Failure('%s:subset-summary' % sim, 'summary(%r) = %r %r; counting over the histories gives %r %r'
                                 % (subset[:6], st_[:8], {s: v[:8] for s, v in got.items()}, times[:8], {s: v[:8] for s, v in want.items()})))
    except Exception as e:
        fails.append(Failure('%s:subset-summary:exception:%s' % (sim, exc_signature(e)), 'summary(nodelist) raised %r' % (e,)))
    # history: after a subset summary the whole-population accessors must still describe the whole population
    try:
        t2 = [float(x) for x in full.t()]
        if t2 != tf:
            fails.append(Failure('%s:t()-changes-after-subset-summary' % sim, 't() after summary(nodelist=subset) has %d entries, before %d' % (len(t2), len(tf))))
        for s_, fn in (('S', full.S), ('I', full.I), ('R', full.R)):
            if s_ in sts and [int(x) for x in fn()] != Df[s_]:
                fails.append(Failure('%s:%s()-changes-after-subset-summary' % (sim, s_), '%s() after summary(nodelist=subset) differs from the whole-population series' % s_))
        tf3, D3 = full.summary()
        if [float(x) for x in tf3] != tf or any([int(x) for x in D3[s_]] != Df[s_] for s_ in sts):
            fails.append(Failure('%s:summary()-changes-after-subset-summary' % sim, 'summary() after summary(nodelist=subset) differs from before'))
        st0 = full.get_statuses(nodes)
        if any(st0[u] != naive_status(hist[u], tmin) for u in nodes):
            fails.append(Failure('%s:get_statuses-default-time-after-subset-summary' % sim, 'get_statuses() (default time) no longer returns the statuses at tmin'))
    except Exception as e:
        fails.append(Failure('%s:accessor-after-subset:exception:%s' % (sim, exc_signature(e)), 'raised %r' % (e,)))
    R0 = case.get('R0') if sim in simrun.HAS_R0 else []
    zero = (case.get('rule') or {}).get('kind') == 'table' and any(d == 0 for d in case['rule']['dur'] + [x for x in case['rule']['delay'] if not isinstance(x, list)])
    nt = bool(R0) or tmin != 0 or zero or k < len(nodes)
    classes = [sim] + (['R0'] if R0 else []) + (['event-at-tmin'] if zero else []) + (['tmin!=0'] if tmin != 0 else [])
    return Result(fails, nontrivial=nt and len(ta) >= 2, classes=classes)


@st.composite
def c10_case(draw, sim=None):
    case = draw(simrun.sim_case(sims=([sim] if sim else simrun.SIMS), nmax=20))
    sim = case['sim']
    if sim in ('basic_discrete_SIR', 'basic_discrete_SIS', 'percolation_based_discrete_SIR', 'discrete_SIR'):
        case['p'] = draw(st.sampled_from([1.0, 1.0, 0.0]))     # deterministic rule: both modes consume the same draws' outcomes
        if case['tmax'] != 'inf':
            import math
            case['tmax'] = case['tmin'] + max(1, math.floor(case['tmax'] - case['tmin']))
    return case


def prop_discrete_table(case):
    """discrete_SIR under a deterministic success table and recovery rule: arrays vs full data (same rules, no draws)"""
    import EoN
    from . import c12
    gc = case['gc']
    nodes, adj = oracles.adjacency(gc)
    pairs = [(u, v) for u in nodes for v in adj[u]]
    success = dict(zip(pairs, case['succ']))
    I0 = [oracles.tolabel(u) for u in case['I0']]
    R0 = [oracles.tolabel(u) for u in case['R0']]
    tmax = float('inf') if case['tmax'] == 'inf' else case['tmax']
    durations = dict(zip(nodes, case['durations'])) if case['durations'] else None

    def kwargs(full):
        kw = dict(initial_infecteds=list(I0), tmin=case['tmin'], tmax=tmax, return_full_data=full)
        if R0:
            kw['initial_recovereds'] = list(R0)
        if durations:
            cnt = {}

            def test_recovery(u):
                cnt[u] = cnt.get(u, 0) + 1
                return cnt[u] >= durations[u]
            kw['test_recovery'] = test_recovery
        return kw
    budget = CallBudget(100000)

    def tt(u, v):
        budget.tick()
        return success[(u, v)]
    fails = []
    try:
        G = oracles.build_graph(gc)
        arr = EoN.discrete_SIR(G, tt, **kwargs(False))
        full = EoN.discrete_SIR(oracles.build_graph(gc), tt, **kwargs(True))
        ta = [float(x) for x in arr[0]]
        rows = list(zip(*[[int(x) for x in col] for col in arr[1:]]))
        for i, a in enumerate(ta):
            if a > tmax:
                continue
            stt = full.get_statuses(nodes, a)
            vals = list(stt.values())
            row = (vals.count('S'), vals.count('I'), vals.count('R'))
            if row != rows[i]:
                fails.append(Failure('discrete_SIR:table:statuses-differ-from-array-row%s' % (':with-test_recovery' if durations else ''),
                                     'same deterministic rules: at t=%r the full-data object has (S,I,R)=%r, the array row is %r' % (a, row, rows[i])))
                break
    except RunawayError as e:
        fails.append(Failure('discrete_SIR:table:non-termination', str(e)))
    except Exception as e:
        fails.append(Failure('discrete_SIR:table:exception:%s' % exc_signature(e), 'raised %r' % (e,)))
    return Result(fails, nontrivial=bool(durations) or bool(R0), classes=['discrete-table'] + (['test_recovery'] if durations else []))


# ---------------------------------------------------------------------------
# constructed histories: the accessors of Simulation_Investigation on generated node histories (ties included)
# ---------------------------------------------------------------------------

@st.composite
def history_case(draw):
    gc = draw(gen.graph_case(1, 8, labels=('int', 'perm', 'str', 'tuple'), weighted=False))
    kind = draw(st.sampled_from(['SIR', 'SIS', 'SEIR']))
    moves = {'SIR': {'S': 'I', 'I': 'R'}, 'SIS': {'S': 'I', 'I': 'S'}, 'SEIR': {'S': 'E', 'E': 'I', 'I': 'R'}}[kind]
    tmin = draw(st.sampled_from([0, 0, -2.5, 3]))
    hist = []
    for _ in gc['nodes']:
        s = draw(st.sampled_from(sorted(set(moves) | set(moves.values()))))
        ts, ss, t = [tmin], [s], tmin
        for _k in range(draw(st.integers(0, 5))):
            if ss[-1] not in moves:
                break
            t = t + draw(st.sampled_from([0, 0, 0.25, 0.5, 1.0, 1.5]))      # 0: two changes at one instant
            ts.append(t); ss.append(moves[ss[-1]])
        hist.append([ts, ss])
    return {'gc': gc, 'kind': kind, 'tmin': tmin, 'hist': hist, 'array_times': draw(st.booleans()),
            'q': [draw(st.sampled_from([0, 0.25, 0.5, 0.75, 1.0, 1.5, 2.0, 2.25, 4.0, 9.0])) for _ in range(4)],
            'subset': draw(st.integers(0, 2 ** 8 - 1))}


def prop_history(case):
    import EoN
    import numpy as np
    G = oracles.build_graph(case['gc'])
    nodes = [oracles.tolabel(u) for u in case['gc']['nodes']]
    sts = {'SIR': ['S', 'I', 'R'], 'SIS': ['S', 'I'], 'SEIR': ['S', 'E', 'I', 'R']}[case['kind']]
    hist = {u: (list(h[0]), list(h[1])) for u, h in zip(nodes, case['hist'])}
    given = {u: ((np.array(h[0], dtype=float) if case['array_times'] else list(h[0])), list(h[1])) for u, h in hist.items()}
    tmin = case['tmin']
    fails = []
    try:
        inv = EoN.Simulation_Investigation(G, given, transmissions=[], possible_statuses=sts)
        change_times = sorted(set(a for u in nodes for a in hist[u][0]))
        qs = sorted(set([tmin] + [tmin + q for q in case['q']] + change_times + [a + 0.125 for a in change_times]))
        for q in qs:
            bad = [u for u in nodes if inv.node_status(u, q) != naive_status(hist[u], q)]
            if bad:
                fails.append(Failure('constructed:node_status', 'node_status(%r, %r)=%r; history %r' % (bad[0], q, inv.node_status(bad[0], q), hist[bad[0]])))
                break
            stt = inv.get_statuses(nodes, q)
            bad = [u for u in nodes if stt[u] != naive_status(hist[u], q)]
            if bad:
                fails.append(Failure('constructed:get_statuses', 'get_statuses(time=%r)[%r]=%r; history %r' % (q, bad[0], stt[bad[0]], hist[bad[0]])))
                break
        for label, subset in (('all', None), ('subset', [u for i, u in enumerate(nodes) if (case['subset'] >> i) & 1] or nodes[:1])):
            t, D = inv.summary(subset) if subset is not None else inv.summary()
            sub = subset if subset is not None else nodes
            t = [float(x) for x in t]
            if not t or t[0] != tmin or any(b <= a for a, b in zip(t, t[1:])):
                fails.append(Failure('constructed:summary-times:%s' % label, 'summary times %r (tmin=%r)' % (t[:10], tmin)))
                continue
            want_times = sorted(set(a for u in sub for a in hist[u][0]))
            need = [a for i, a in enumerate(want_times) if i == 0 or
                    any(naive_status(hist[u], a) != naive_status(hist[u], want_times[i - 1]) for u in sub)]
            if any(a not in t for a in need) or any(a not in want_times for a in t):
                fails.append(Failure('constructed:summary-time-set:%s' % label, 'summary times %r; change times of the nodes %r' % (t[:10], want_times[:10])))
                continue
            for i, a in enumerate(t):
                want = {s_: sum(1 for u in sub if naive_status(hist[u], a) == s_) for s_ in sts}
                got = {s_: int(D[s_][i]) for s_ in sts}
                if got != want:
                    fails.append(Failure('constructed:summary-counts:%s' % label, 'summary row at t=%r is %r; counting the histories gives %r' % (a, got, want)))
                    break
        tt = [float(x) for x in inv.t()]
        tf, Df = inv.summary()
        if tt != [float(x) for x in tf]:
            fails.append(Failure('constructed:t()-vs-summary', 't() = %r, summary()[0] = %r' % (tt[:8], list(tf)[:8])))
        for s_, fn in (('S', inv.S), ('I', inv.I), ('R', inv.R)):
            if s_ in sts and [int(x) for x in fn()] != [int(x) for x in Df[s_]]:
                fails.append(Failure('constructed:%s()-vs-summary' % s_, '%s() differs from summary()' % s_))
    except Exception as e:
        fails.append(Failure('constructed:exception:%s' % exc_signature(e), 'raised %r' % (e,)))
    ties = any(any(a == b for a, b in zip(h[0], h[0][1:])) for h in hist.values())
    return Result(fails, nontrivial=any(len(h[0]) >= 2 for h in hist.values()),
                  classes=[case['kind']] + (['two-changes-at-one-instant'] if ties else []) + (['tmin!=0'] if tmin != 0 else []))


@st.composite
def large_c10_case(draw, sim):
    case = draw(simrun.large_case(sim))
    if sim in simrun.DISCRETE:
        case['p'] = draw(st.sampled_from([1.0, 1.0, 0.0]))
    return case


def replay(ctx, sub, case):
    if sub == 'constructed':
        return prop_history(case).failures
    if sub == 'discrete-table':
        return prop_discrete_table(case).failures
    return prop_case(case).failures


def run(ctx):
    quick = ctx.tier == 'quick'
    ctx.rule = ('Hypothesis: simulator (12) x graph n<=20 x rates x weights x I0/R0 x tmin/tmax x seed; each case run twice with the same '
                'seeds (arrays / full data); discrete-time simulators with p in {0,1}; non-Markovian ones with exponential or dyadic-table '
                'rules (incl. zero delays/durations: events exactly at tmin). 9 generated query times per case (at change times, just '
                'after, between, beyond the end) and one random node subset. Non-trivial: >=2 rows and (R0 non-empty or tmin != 0 or '
                'an event at exactly tmin or a proper subset summary).')
    ctx.assumptions = ['continuous-time simulators consume the same draws in both return modes (asserted by C18)',
                       'discrete-time: tmax-tmin whole or infinite, deterministic rule']
    for sim in simrun.SIMS:
        run_hypothesis(ctx, 'modes', c10_case(sim), prop_case, 130 if quick else 4000, rounds=3)
        run_hypothesis(ctx, 'large', large_c10_case(sim), prop_case, 20 if quick else 300, rounds=2, case_timeout=300)
    from . import c12
    run_hypothesis(ctx, 'discrete-table', c12.table_case(), prop_discrete_table, 400 if quick else 10000)
    run_hypothesis(ctx, 'constructed', history_case(), prop_history, 600 if quick else 20000, rounds=2)
