"""C20 - time-series and degree-distribution helpers have exact step/moment semantics.

Hypothesis: ordered observation times with ties, 1-3 integer series, ordered report times with ties, equal to event
times, beyond the end (lists and arrays); threshold series; graphs n<=12; x in (0,1].
Oracles: naive 'last observation <= report time' scan; first index reaching the threshold; degree histogram;
moments; central finite differences; T<k^2-k>/<k>.
"""
import numpy as np
from hypothesis import strategies as st

from ..runner import Failure, Result, run_hypothesis, exc_signature
from .. import oracles, gen

ID = 'C20'
LEVEL = 'exploration'


@st.composite
def subsample_case(draw):
    n = draw(st.integers(1, 12))
    grid = st.sampled_from([0, 0.25, 0.5, 0.5, 1, 1, 1.5, 2, 2.5, 3, 4.75])
    t0 = draw(st.sampled_from([0, -2, 1.5]))
    incs = [draw(st.sampled_from([0, 0, 0.25, 0.5, 1, 1.75])) for _ in range(n - 1)]
    times = [t0]
    for d in incs:
        times.append(times[-1] + d)
    k = draw(st.integers(1, 3))
    series = []
    for _ in range(k):
        kind = draw(st.sampled_from(['int', 'int', 'float', 'mixed']))      # counts, fractions, or a list that starts with an int and goes on with fractions
        if kind == 'int':
            series.append([draw(st.integers(0, 50)) for _ in range(n)])
        elif kind == 'float':
            series.append([draw(st.integers(0, 400)) / 8.0 for _ in range(n)])
        else:
            series.append([draw(st.integers(0, 5))] + [draw(st.one_of(st.integers(0, 50), st.integers(0, 400).map(lambda z: z / 16.0))) for _ in range(n - 1)])
    m = draw(st.integers(1, 10))
    reps = []
    cur = times[0] + draw(st.sampled_from([0, 0, 0.1, 0.5]))
    for _ in range(m):
        how = draw(st.integers(0, 4))
        if how == 0:
            pass                                    # tie with the previous report time
        elif how == 1:
            later = [x for x in times if x >= cur]
            if later:
                cur = draw(st.sampled_from(later))  # exactly an observation time
        elif how == 2:
            cur = cur + draw(st.sampled_from([0.1, 0.25, 0.3, 1.0]))
        elif how == 3:
            cur = max(cur, times[-1]) + draw(st.sampled_from([0, 0.5, 10]))   # at / beyond the end
        else:
            cur = cur + draw(st.floats(0, 2, allow_nan=False))
        reps.append(cur)
    return {'times': times, 'series': series, 'report': reps, 'arrays': draw(st.booleans())}


def naive_subsample(report, times, series):
    out = []
    for r in report:
        val = None
        for t, v in zip(times, series):
            if t <= r:
                val = v
        out.append(val)
    return out


def prop_subsample(case):
    import EoN
    times, series, report = case['times'], case['series'], case['report']
    conv = (lambda x: np.array(x)) if case['arrays'] else (lambda x: list(x))
    fails = []
    want = [naive_subsample(report, times, s) for s in series]
    try:
        res = EoN.subsample(conv(report), conv(times), *[conv(s) for s in series])
        if len(series) == 1:
            res = (res,)
        got = [[float(x) for x in r] for r in res]
        want = [[float(x) for x in w] for w in want]
        if len(got) != len(series):
            fails.append(Failure('subsample:arity', '%d series in, %d out' % (len(series), len(got))))
        else:
            for i, (g, w) in enumerate(zip(got, want)):
                if g != w:
                    fails.append(Failure('subsample:series%d-of-%d' % (i + 1, len(series)),
                                         'subsample(report=%r, times=%r, ...) series %d = %r; last observation at or before each report time = %r (series %r)'
                                         % (report, times, i + 1, g, w, series[i])))
                    break
    except Exception as e:
        fails.append(Failure('subsample:exception:%s' % exc_signature(e), 'raised %r on report=%r times=%r' % (e, report, times)))
    ties = len(set(times)) < len(times)
    eq = any(r in times for r in report)
    beyond = any(r > times[-1] for r in report)
    return Result(fails, nontrivial=len(times) >= 2 and (ties or eq or beyond),
                  classes=['series=%d' % len(series)] + (['int-then-fractions'] if any(isinstance(s_[0], int) and any(isinstance(x, float) and x != int(x) for x in s_) for s_ in series) else []) + (['ties'] if ties else []) + (['report==obs'] if eq else []) + (['beyond-end'] if beyond else []))


@st.composite
def shift_case(draw):
    n = draw(st.integers(1, 12))
    times = sorted(draw(st.lists(st.sampled_from([0, 0.5, 1, 1.5, 2, 3, 4, 5.5, 7]), min_size=n, max_size=n)))
    L = [draw(st.integers(0, 20)) for _ in range(n)]
    thr = draw(st.integers(0, max(L)))
    gaps = []
    if draw(st.integers(0, 3)) == 0:
        # missing observations (NaN, e.g. a 0/0 ratio early in an outbreak): they never 'reach' a threshold; at least one real
        # observation at or above the threshold is kept
        keep = max(range(n), key=lambda i: L[i])
        gaps = [i for i in range(n) if i != keep and draw(st.integers(0, 2)) == 0]
    return {'times': times, 'L': L, 'threshold': thr, 'arrays': draw(st.booleans()), 'gaps': gaps}


def prop_shift(case):
    import EoN
    times, L, thr = case['times'], list(case['L']), case['threshold']
    for i in case.get('gaps') or []:
        L[i] = float('nan')
    want = next(t for t, v in zip(times, L) if v >= thr)
    conv = (lambda x: np.array(x)) if case['arrays'] else (lambda x: list(x))
    try:
        got = EoN.get_time_shift(conv(times), conv(L), thr)
        if float(got) != float(want):
            return Result([Failure('get_time_shift:value', 'get_time_shift(%r, %r, %r) = %r, first time the series reaches the threshold is %r'
                                   % (times, L, thr, got, want))], nontrivial=True)
    except Exception as e:
        return Result([Failure('get_time_shift:exception:%s' % exc_signature(e), 'raised %r' % (e,))])
    first = next(i for i, v in enumerate(L) if v >= thr)
    return Result([], nontrivial=len(times) >= 3 and first > 0, classes=(['first>0'] if first > 0 else ['first==0']) + (['missing-observations'] if case.get('gaps') else []))


@st.composite
def degree_case(draw):
    gc = draw(gen.graph_case(1, 12, labels=('int', 'str', 'tuple'), weighted=False, selfloops=True))
    return {'gc': gc, 'x': draw(st.one_of(st.sampled_from([1.0, 0.5, 0.25]), st.floats(0.05, 1.0, allow_nan=False))),
            'T': draw(st.sampled_from([0.2, 0.5, 1.0])), 'tau': draw(gen.pos_rates), 'gamma': draw(gen.pos_rates), 'rewire': draw(st.integers(0, 40))}


@st.composite
def big_degree_case(draw):
    """22-160 nodes (counts recovered from proportions, e.g. int(N*Pk[k]), only go wrong for particular N and class sizes);
    the edge list is a pure function of three drawn integers"""
    import random
    n = draw(st.integers(22, 160))
    kind = draw(st.sampled_from(['cycle+extras', 'gnp', 'gnp', 'stars']))
    R = random.Random(draw(st.integers(0, 10 ** 6)))
    if kind == 'cycle+extras':
        m = n - 2 * draw(st.integers(1, 4))
        es = [[i, (i + 1) % m] for i in range(m)] + [[j, j + 1] for j in range(m, n - 1, 2)]
    elif kind == 'gnp':
        c = draw(st.sampled_from([1.0, 2.0, 4.0]))
        es = [[i, j] for i in range(n) for j in range(i + 1, n) if R.random() < c / n]
    else:
        hubs = draw(st.integers(1, 5))
        es = [[R.randrange(hubs), j] for j in range(hubs, n) if R.random() < 0.8]
    gc = {'nodes': list(range(n)), 'edges': es, 'ew': None, 'nw': None, 'directed': False}
    return {'gc': gc, 'x': draw(st.sampled_from([1.0, 0.5, 0.9])), 'T': draw(st.sampled_from([0.2, 0.5, 1.0])), 'tau': draw(gen.pos_rates),
            'gamma': draw(gen.pos_rates), 'rewire': draw(st.integers(0, 40))}


def prop_degree(case):
    import EoN
    G = oracles.build_graph(case['gc'])
    nodes, adj = oracles.adjacency(case['gc'])
    N = len(nodes)
    # edge ends: a self-loop gives its node two ends that both lead back to it (the convention of G.degree)
    ends = {u: [] for u in nodes}
    for e in case['gc']['edges']:
        a, b = oracles.tolabel(e[0]), oracles.tolabel(e[1])
        ends[a].append(b)
        ends[b].append(a)
    degs = [len(ends[u]) for u in nodes]
    fails = []
    try:
        Pk = EoN.get_Pk(G)
        hist = {}
        for d in degs:
            hist[d] = hist.get(d, 0) + 1
        if abs(sum(Pk.values()) - 1) > 1e-12 or any(abs(Pk.get(k, 0) - hist[k] / float(N)) > 1e-12 for k in hist) or \
                any(k not in hist and v != 0 for k, v in Pk.items()):
            fails.append(Failure('get_Pk:histogram', 'get_Pk = %r; degree histogram/N = %r' % (dict(Pk), {k: v / float(N) for k, v in hist.items()})))
        k1 = sum(degs) / float(N)
        k2 = sum(d * (d - 1) for d in degs) / float(N)
        psi, psiP, psiPP = EoN.get_PGF(Pk), EoN.get_PGFPrime(Pk), EoN.get_PGFDPrime(Pk)
        if abs(psi(1.0) - 1) > 1e-12:
            fails.append(Failure('get_PGF:psi(1)', 'psi(1)=%r' % psi(1.0)))
        if abs(psiP(1.0) - k1) > 1e-10:
            fails.append(Failure('get_PGFPrime:psiprime(1)', "psi'(1)=%r, <k>=%r" % (psiP(1.0), k1)))
        if abs(psiPP(1.0) - k2) > 1e-10:
            fails.append(Failure('get_PGFDPrime:psidprime(1)', "psi''(1)=%r, <k^2-k>=%r" % (psiPP(1.0), k2)))
        x = case['x']
        direct = sum(x ** d for d in degs) / float(N)
        if abs(psi(x) - direct) > 1e-10:
            fails.append(Failure('get_PGF:value', 'psi(%r)=%r, sum_k P(k)x^k=%r' % (x, psi(x), direct)))
        if max(degs) >= 1 and x > 0.06:
            h = 1e-5 * x
            fd1 = (psi(x + h) - psi(x - h)) / (2 * h)
            fd2 = (psiP(x + h) - psiP(x - h)) / (2 * h)
            if abs(fd1 - psiP(x)) > 1e-5 * max(1.0, abs(psiP(x))):
                fails.append(Failure('get_PGFPrime:not-derivative', "psi'(%r)=%r but finite difference of psi = %r" % (x, psiP(x), fd1)))
            if abs(fd2 - psiPP(x)) > 1e-4 * max(1.0, abs(psiPP(x))):
                fails.append(Failure('get_PGFDPrime:not-derivative', "psi''(%r)=%r but finite difference of psi' = %r" % (x, psiPP(x), fd2)))
        Pnk = EoN.get_Pnk(G)
        for k in set(degs):
            if k >= 1:
                row = Pnk[k]
                if abs(sum(row.values()) - 1) > 1e-10:
                    fails.append(Failure('get_Pnk:row-sum', 'row k=%d sums to %r: %r' % (k, sum(row.values()), dict(row))))
                    break
                # direct: fraction of edge-ends of degree-k nodes that lead to degree k2
                cnt = {}
                for u in nodes:
                    if len(ends[u]) == k:
                        for v in ends[u]:
                            cnt[len(ends[v])] = cnt.get(len(ends[v]), 0) + 1
                tot = float(sum(cnt.values()))
                if any(abs(row.get(k2_, 0) - c / tot) > 1e-10 for k2_, c in cnt.items()):
                    fails.append(Failure('get_Pnk:values', 'row k=%d = %r; neighbour-degree frequencies = %r' % (k, dict(row), {a: c / tot for a, c in cnt.items()})))
                    break
        if k1 > 0:
            T = case['T']
            r0 = EoN.estimate_R0(G, transmissibility=T)
            if abs(r0 - T * k2 / k1) > 1e-10:
                fails.append(Failure('estimate_R0:transmissibility', 'estimate_R0(T=%r)=%r, T<k^2-k>/<k>=%r' % (T, r0, T * k2 / k1)))
            tau, gamma = case['tau'], case['gamma']
            r0b = EoN.estimate_R0(G, tau=tau, gamma=gamma)
            if abs(r0b - tau / (tau + gamma) * k2 / k1) > 1e-10:
                fails.append(Failure('estimate_R0:tau-gamma', 'estimate_R0(tau=%r,gamma=%r)=%r, expected %r' % (tau, gamma, r0b, tau / (tau + gamma) * k2 / k1)))
        # history: the same graph object queried again after it was rewired (same numbers of nodes and edges, other degrees)
        und = [(u, v) for u in nodes for v in adj[u] if repr(u) < repr(v)]
        non = [(u, v) for i, u in enumerate(nodes) for v in nodes[i + 1:] if v not in adj[u]]
        if und and non:
            k = case.get('rewire', 0)
            a, b = und[k % len(und)]
            c_, d_ = non[k % len(non)]
            G.remove_edge(a, b)
            G.add_edge(c_, d_)
            degs2 = [G.degree(u) for u in nodes]
            hist2 = {}
            for d in degs2:
                hist2[d] = hist2.get(d, 0) + 1
            Pk2 = EoN.get_Pk(G)
            if any(abs(Pk2.get(k_, 0) - hist2[k_] / float(N)) > 1e-12 for k_ in hist2) or abs(sum(Pk2.values()) - 1) > 1e-12 or \
                    any(k_ not in hist2 and v != 0 for k_, v in Pk2.items()):
                fails.append(Failure('get_Pk:stale-after-rewiring', 'after moving edge %r to %r on the same graph object get_Pk = %r; degree histogram/N = %r'
                                     % ((a, b), (c_, d_), dict(Pk2), {k_: v / float(N) for k_, v in hist2.items()})))
            k1b = sum(degs2) / float(N)
            k2b = sum(d * (d - 1) for d in degs2) / float(N)
            if k1b > 0 and abs(EoN.estimate_R0(G, transmissibility=case['T']) - case['T'] * k2b / k1b) > 1e-10:
                fails.append(Failure('estimate_R0:stale-after-rewiring', 'estimate_R0 after rewiring = %r, T<k^2-k>/<k> = %r'
                                     % (EoN.estimate_R0(G, transmissibility=case['T']), case['T'] * k2b / k1b)))
    except Exception as e:
        fails.append(Failure('degree-helpers:exception:%s' % exc_signature(e), 'raised %r' % (e,)))
    return Result(fails, nontrivial=len(set(degs)) >= 2, classes=(['>=2-degrees'] if len(set(degs)) >= 2 else ['regular']) +
                  (['self-loops'] if case['gc'].get('selfloops') else []))


def replay(ctx, sub, case):
    return {'subsample': prop_subsample, 'get_time_shift': prop_shift, 'degree': prop_degree}[sub](case).failures


def run(ctx):
    quick = ctx.tier == 'quick'
    ctx.rule = ('Hypothesis: (subsample) 1-12 ordered observation times with ties, 1-3 integer series, 1-10 ordered report times built from '
                'ties / exact observation times / small steps / at and beyond the end, lists or numpy arrays; non-trivial: >=2 observations '
                'and (ties or a report time equal to an observation or beyond the end). (get_time_shift) threshold reached by construction. '
                '(degree) graphs n<=12, x in (0,1]: P(k) vs histogram, psi moments, finite differences, P_n rows, estimate_R0.')
    ctx.assumptions = ['report_times[0] >= times[0] and both sequences ordered (documented precondition)',
                       'get_time_shift only asserted when the threshold is reached']
    only = getattr(ctx, 'only', None)
    if not only or 'subsample' in only:
        run_hypothesis(ctx, 'subsample', subsample_case(), prop_subsample, 3000 if quick else 60000)
    if not only or 'get_time_shift' in only:
        run_hypothesis(ctx, 'get_time_shift', shift_case(), prop_shift, 1000 if quick else 15000)
    if not only or 'degree' in only:
        run_hypothesis(ctx, 'degree', degree_case(), prop_degree, 1000 if quick else 15000)
        run_hypothesis(ctx, 'degree', big_degree_case(), prop_degree, 300 if quick else 5000, rounds=2)
