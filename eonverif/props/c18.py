"""C18 - simulations are reproducible from the random seeds.

Hypothesis: simulator x graph (int / string / tuple labels) x parameters x seed.
 * same seeds => identical output twice in one process (unrelated global state perturbed in between);
 * continuous-time simulators: identical draws in both return modes (post-call random.getstate() /
   numpy.random.get_state() equal) and summary == arrays;
 * (the forking source used by C01-C03/C12/C15/C16 itself verifies, on every run, that no draw bypassed the substituted
   names - a bypass is reported there as a harness problem, exit 2, because drawing from the global generators through
   another import path is legitimate for the code);
 * cross-process: a generated batch of continuous-time cases is executed in fresh interpreters with
   PYTHONHASHSEED in {0,1,2,random}; output digests must coincide.
"""
import os
import sys
import json
import random
import hashlib
import subprocess
import numpy as np
from hypothesis import strategies as st

from ..runner import Failure, Result, run_hypothesis, exc_signature, jsonable, CallBudget, RunawayError, HarnessError, VERIF, OUT, REPO
from .. import simrun, oracles, forkrng

ID = 'C18'
LEVEL = 'exploration'
CONT = [s for s in simrun.SIMS if s not in simrun.DISCRETE]


def out_digest(case, out, full):
    nodes = [oracles.tolabel(u) for u in case['gc']['nodes']]
    if full:
        d = {'hist': [[repr(u), [float(x) for x in out.node_history(u)[0]], list(out.node_history(u)[1])] for u in nodes]}
        try:
            d['trans'] = [[float(t), repr(a), repr(b)] for t, a, b in out.transmissions()]
        except Exception:
            d['trans'] = None
    else:
        d = {'arrays': [[float(x) for x in col] for col in out]}
    return hashlib.sha1(json.dumps(d, sort_keys=True).encode()).hexdigest()


def np_state_digest():
    s = np.random.get_state()
    return hashlib.sha1(repr((s[0], s[1].tolist(), s[2], s[3], s[4])).encode()).hexdigest()


class _Abort(Exception):
    pass


def _aborted_call(G):
    """an event-driven simulation on the same graph that dies half-way (the user's rule raises while events are queued):
    whatever it leaves behind must not leak into later calls"""
    import EoN
    nodes = list(G.nodes())
    if not nodes:
        return
    cnt = [0]

    def trans(u, v):
        cnt[0] += 1
        if cnt[0] > 2:
            raise _Abort()
        return 0.25

    try:
        EoN.fast_nonMarkov_SIR(G, trans_time_fxn=trans, rec_time_fxn=lambda u: 1.0, initial_infecteds=nodes[:3], tmax=50)
    except _Abort:
        pass


def prop_case(case):
    sim = case['sim']
    fails = []
    digs = {}
    states = {}
    for full in (False, True):
        mode = 'full' if full else 'arrays'
        try:
            out1 = simrun.call(case, full, budget=CallBudget(200000))
            st1 = (hashlib.sha1(repr(random.getstate()).encode()).hexdigest(), np_state_digest())
            d1 = out_digest(case, out1, full)
            # perturb unrelated global state
            junk = {str(i): set(range(i % 7)) for i in range(50)}
            random.random(); np.random.rand(3)
            del junk
            out2 = simrun.call(case, full, budget=CallBudget(200000))
            d2 = out_digest(case, out2, full)
            if d1 != d2:
                fails.append(Failure('%s:%s:not-repeatable' % (sim, mode), 'two calls with the same seeds give different output (%s mode)' % mode))
            digs[full] = (out1, d1)
            states[full] = st1
        except RunawayError as e:
            fails.append(Failure('%s:%s:non-termination' % (sim, mode), str(e)))
        except Exception as e:
            fails.append(Failure('%s:%s:exception:%s' % (sim, mode, exc_signature(e)), 'raised %r' % (e,)))
    # a call must not depend on what happened before on the same graph object (hidden caches, leftover attributes)
    try:
        G = oracles.build_graph(case['gc'])
        a1 = out_digest(case, simrun.call(case, False, budget=CallBudget(200000), G=G), False)
        other = dict(case)
        other['seed'] = case['seed'] + 17
        other['tau'] = case['tau'] * 0.5 + 0.3
        other['gamma'] = case['gamma'] * 2 + 0.1
        other['p'] = 0.5 if case['p'] != 0.5 else 0.9
        other['I0'] = case['I0'][::-1][:1] or case['I0']
        simrun.call(other, True, budget=CallBudget(200000), G=G)
        _aborted_call(G)
        a2 = out_digest(case, simrun.call(case, False, budget=CallBudget(200000), G=G), False)
        if a1 != a2:
            fails.append(Failure('%s:depends-on-earlier-calls' % sim, 'same seeds, same graph object: the result changes after a different simulation was run on that graph in between'))
    except RunawayError as e:
        fails.append(Failure('%s:interleaved:non-termination' % sim, str(e)))
    except Exception as e:
        fails.append(Failure('%s:interleaved:exception:%s' % (sim, exc_signature(e)), 'raised %r' % (e,)))
    # the caller keeps its argument objects (graph, specification graphs, IC dict, option dicts) and calls again with the same seeds
    if not case.get('R0_one_shot') and not case.get('rec_steps'):
        try:
            f, args, kw = simrun.build(case, False, budget=CallBudget(400000))
            outs = []
            for _rep in range(2):
                random.seed(case['seed']); np.random.seed(case['seed'] % (2 ** 32))
                outs.append(out_digest(case, f(*args, **kw), False))
            if outs[0] != outs[1]:
                fails.append(Failure('%s:same-argument-objects:not-repeatable' % sim,
                                     'two calls with the same seeds and the very same argument objects give different output'))
        except RunawayError as e:
            fails.append(Failure('%s:same-argument-objects:non-termination' % sim, str(e)))
        except Exception as e:
            fails.append(Failure('%s:same-argument-objects:exception:%s' % (sim, exc_signature(e)), 'raised %r' % (e,)))
    if sim in CONT and False in states and True in states:
        if states[False] != states[True]:
            which = 'random' if states[False][0] != states[True][0] else 'numpy.random'
            fails.append(Failure('%s:return-mode-changes-draws' % sim,
                                 'after the call the state of %s differs between return_full_data=False and True: the two modes consume different draws' % which))
        else:
            ta, Da = simrun.as_series(case, digs[False][0], False)
            tf, Df = simrun.as_series(case, digs[True][0], True)
            if (ta, Da) != (tf, Df) and len(set(ta)) == len(ta):
                fails.append(Failure('%s:return-mode-changes-result' % sim, 'same seeds and same draws, but arrays != summary of the full-data object'))
    nodes = case['gc']['nodes']
    nontrivial = not all(isinstance(u, int) for u in nodes) or KIND_generic(case)
    return Result(fails, nontrivial=nontrivial, classes=[sim, 'labels=' + type(oracles.tolabel(nodes[0])).__name__])


large_case = simrun.large_case


def prop_large(case):
    res = prop_case(case)
    return Result(res.failures, nontrivial=True, classes=[case['sim'], 'shape=' + case['large'][0], 'weights=' + case['large'][1]])


def KIND_generic(case):
    return simrun.KIND[case['sim']] == 'generic'


# ---------------------------------------------------------------------------
# cross-process
# ---------------------------------------------------------------------------

CHILD = r'''
import sys, os, json, warnings
warnings.filterwarnings('ignore')
sys.path.insert(0, %(verif)r); sys.path.insert(0, %(repo)r)
from eonverif import simrun
from eonverif.props import c18
cases = json.load(open(sys.argv[1]))
out = []
for case in cases:
    row = []
    for full in (False, True):
        try:
            o = simrun.call(case, full)
            row.append(c18.out_digest(case, o, full))
        except Exception as e:
            row.append('EXC:' + type(e).__name__)
    out.append(row)
print('DIGESTS ' + json.dumps(out))
'''


@st.composite
def xproc_case(draw, sim=None):
    case = draw(simrun.sim_case(sims=([sim] if sim else CONT), nmax=12, labels=('str', 'str', 'mixed')))
    if case['tau'] < 0.5:
        case['tau'] = draw(st.sampled_from([1.0, 2.0]))
    nodes = case['gc']['nodes']
    if len(case['I0']) < 2 and len(nodes) >= 3 and draw(st.booleans()):
        extra = [u for u in nodes if u not in case['I0'] and u not in case['R0']][:2]
        case['I0'] = case['I0'] + extra
    if case['tmax'] != 'inf':
        case['tmax'] = case['tmin'] + 4
    return case


def run_xproc(ctx, sub, n_cases, cases=None):
    from hypothesis import given, settings, seed, HealthCheck, Phase
    if ctx.shard_id != 0:
        return
    given_cases = cases
    cases = []

    def collect():
        per = max(1, n_cases // len(CONT))
        for k, sim in enumerate(CONT):          # equal quota per simulator
            got = []

            @seed(ctx.seed * 31 + 7 + k)
            @settings(max_examples=per, database=None, deadline=None, suppress_health_check=list(HealthCheck), phases=[Phase.generate])
            @given(xproc_case(sim))
            def one(case):
                got.append(case)
            one()
            cases.extend(got[:per])
    if given_cases is None:
        collect()
    else:
        cases = list(given_cases)
    os.makedirs(OUT + '/scratch', exist_ok=True)
    batch = os.path.join(OUT, 'scratch', 'c18_batch_%d.json' % os.getpid())
    json.dump(jsonable(cases), open(batch, 'w'))
    child = os.path.join(OUT, 'scratch', 'c18_child_%d.py' % os.getpid())
    open(child, 'w').write(CHILD % {'verif': VERIF, 'repo': os.environ.get('EON_REPO', '/repo')})
    results = {}
    procs = {}
    for hs in ('0', '1', '2', 'random'):
        env = dict(os.environ, PYTHONHASHSEED=hs, MPLBACKEND='Agg', PYTHONWARNINGS='ignore')
        procs[hs] = subprocess.Popen([sys.executable, child, batch], env=env, stdout=subprocess.PIPE, stderr=subprocess.PIPE, text=True)
    for hs, p in procs.items():
        try:
            so, se = p.communicate(timeout=600)
        except subprocess.TimeoutExpired:
            p.kill()
            ctx.harness_error(sub, 'child interpreter with PYTHONHASHSEED=%s did not finish in 600s' % hs)
            return
        line = [l for l in so.splitlines() if l.startswith('DIGESTS ')]
        if not line:
            ctx.harness_error(sub, 'child interpreter with PYTHONHASHSEED=%s failed: %s' % (hs, se[-800:]))
            return
        results[hs] = json.loads(line[0][8:])
    try:
        os.remove(batch); os.remove(child)
    except OSError:
        pass
    for i, case in enumerate(cases):
        ctx.record(sub, case, True, [case['sim']])
        rows = {hs: results[hs][i] for hs in results}
        ref = rows['0']
        diff = [hs for hs in rows if rows[hs] != ref]
        if diff:
            mode = 'arrays' if any(rows[hs][0] != ref[0] for hs in diff) else 'full'
            f = Failure('%s:differs-across-hash-seeds:%s' % (case['sim'], mode),
                        'same random seeds, PYTHONHASHSEED=0 vs %s give different %s output (labels %r...)' % (diff, mode, case['gc']['nodes'][:3]))
            if ctx.split([f]):
                ctx.violation(sub, case, f)


def replay(ctx, sub, case):
    if sub == 'xproc':
        before = len(ctx.violations)
        run_xproc(ctx, 'xproc-replay', 1, cases=[case])
        return [Failure(v['signature'], v['message']) for v in ctx.violations[before:]]
    if sub == 'large':
        return prop_large(case).failures
    return prop_case(case).failures


def run(ctx):
    quick = ctx.tier == 'quick'
    ctx.rule = ('Hypothesis: simulator (12) x graph n<=20 with int/permuted/string/tuple labels x parameters x seed: repeat in-process with '
                'the same seeds, compare RNG states after both return modes (continuous time). Cross-process: a generated batch of continuous-time cases with string/tuple/mixed labels in 4 '
                'fresh interpreters (PYTHONHASHSEED 0,1,2,random). Non-trivial: non-integer labels or a generic (string-status) '
                'simulator; every cross-process case counts. Class `large`: 70-150 nodes with a hub of degree >= 69 and weights spread over '
                '6 orders of magnitude or one candidate 1500x heavier (size / rejection-count thresholds).')
    ctx.assumptions = ['user callbacks return ordered containers', 'discrete-time simulators are not asserted across hash seeds (the statement allows it)']
    only = getattr(ctx, 'only', None)
    if not only or 'inproc' in only:
        for sim in simrun.SIMS:
            run_hypothesis(ctx, 'inproc', simrun.sim_case(sims=[sim], nmax=20), prop_case, 60 if quick else 2500)
    if not only or 'large' in only:
        for sim in simrun.SIMS:
            run_hypothesis(ctx, 'large', large_case(sim), prop_large, 12 if quick else 400, rounds=2, case_timeout=300)
    if not only or 'xproc' in only:
        run_xproc(ctx, 'xproc', 480 if quick else 4000)
