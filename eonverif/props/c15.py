"""C15 - Gillespie_complex_contagion always acts on up-to-date rates.

User callbacks come from a small grammar (per-status rate rules: constant / threshold / linear in the number of
neighbours - or of nodes within two hops - holding a given status; deterministic transition chooser; influence set =
neighbours, or the two-hop ball when a two-hop rule is present).  The harness evaluates the same grammar on its
own ground-truth statuses; at every step the exact law of the next node (forking random source) must equal
rate/sum(rates), the clock rate the sum, the new status the chooser's answer, and the run must stop exactly
when all rates are zero or tmax is reached.
"""
import networkx as nx
from hypothesis import strategies as st

from ..runner import Failure, Result, run_hypothesis
from .. import oracles, steplaw, gen
from . import c01

ID = 'C15'
LEVEL = 'exploration'
INF = float('inf')


def ball(adj, u, hops):
    seen = {u}
    frontier = [u]
    for _ in range(hops):
        nxt = []
        for x in frontier:
            for y in adj[x]:
                if y not in seen:
                    seen.add(y)
                    nxt.append(y)
        frontier = nxt
    return [x for x in adj if x in seen and x != u]


def rate_of(rules, adj, u, status, nodew=None):
    """rules: {status: [kind, rate, X, theta, hops]}"""
    rule = rules.get(status[u])
    if rule is None:
        return 0.0
    kind, r, X, theta, hops = rule
    if kind == 'const':
        return r
    if kind == 'pernode':
        return r * nodew[u]
    cnt = sum(1 for v in ball(adj, u, hops) if status[v] == X)
    if kind == 'threshold':
        return r if cnt >= theta else 0.0
    if kind == 'linear':
        return r * cnt
    raise ValueError(kind)


class ComplexModel(object):
    has_source = True   # sources are always None: the output carries no transmissions

    def __init__(self, case):
        self.case = case
        gc = case['gc']
        self.nodes, self.adj = oracles.adjacency(gc)
        self.G = oracles.build_graph(gc)
        self.tmin = case.get('tmin', 0)
        self.tmax = INF if case.get('tmax', 'inf') == 'inf' else case['tmax']
        self.init = dict(zip(self.nodes, case['IC']))
        self.statuses = list(case['statuses'])
        self.rules = {k: v for k, v in case['rules'].items()}
        self.nextstatus = dict(case['next'])
        self.hops = max([1] + [v[4] for v in self.rules.values() if v[0] not in ('const', 'pernode')])
        self.nodew = dict(zip(self.nodes, case.get('nodew') or [1.0] * len(self.nodes)))
        # statuses whose presence in a neighbourhood enters some rate; a change a->b can alter other nodes' rates
        # only if a or b is one of them.  A 'lazy' influence function may return nothing otherwise.
        Xs = set(v[2] for v in self.rules.values() if v[0] in ('threshold', 'linear'))
        self.relevant_new = set(b for a, b in self.nextstatus.items() if a in Xs or b in Xs)
        inj = len(set(self.nextstatus.values())) == len(self.nextstatus)
        # a chooser that flips its own coin between two targets (e.g. I -> R or S): {status: second target}
        self.alt = {k: v for k, v in (case.get('alt') or {}).items() if v != self.nextstatus.get(k)}
        self.lazy = bool(case.get('lazy_influence')) and inj and not self.alt
        self.ret = list(case.get('ret') or self.statuses)
        self.calls = []

    def run(self, rng, full):
        import EoN
        rules, adj, nxt, hops = self.rules, self.adj, self.nextstatus, self.hops

        nodew, lazy, relevant_new = self.nodew, self.lazy, self.relevant_new

        def rate_function(G, node, status, parameters):
            return rate_of(rules, adj, node, status, nodew)

        alt = self.alt

        def transition_choice(G, node, status, parameters):
            s_ = status[node]
            if s_ in alt:
                return rng.choice([nxt[s_], alt[s_]])       # the user's own coin (drawn from the same forking source)
            return nxt[s_]

        form = self.case.get('infl_form', 'list')

        def get_influence_set(G, node, status, parameters):
            b = ball(adj, node, hops)
            if lazy and status[node] not in relevant_new:
                b = []          # the node's NEW status tells that no other node's rate can have changed
            if form == 'tuple':
                return tuple(b)
            if form == 'iter':
                return iter(b)              # e.g. G.neighbors(node) in the docstring's own example is a one-shot iterator
            if form == 'generator':
                return (x for x in b)
            if form == 'dictkeys':
                return dict.fromkeys(b).keys()
            return b
        IC = dict(self.init)
        for k, s_ in enumerate(self.case.get('ic_extra') or []):
            IC[('not-in-G', k)] = s_          # a dict made for a larger population: statuses of nodes that are not in G
        return EoN.Gillespie_complex_contagion(self.G, rate_function, transition_choice, get_influence_set, IC,
                                               self.ret if not full else self.statuses, tmin=self.tmin, tmax=self.tmax,
                                               parameters=(), return_full_data=full)

    def events(self, out):
        ev = []
        for u in self.nodes:
            ts, ss = out.node_history(u)
            for t, s in list(zip(ts, ss))[1:]:
                ev.append((t, u, s, None))
        ev.sort(key=lambda e: e[0])
        return ev

    def rows(self, out):
        ts = list(out[0])
        rows = list(zip(*[[int(x) for x in col] for col in out[1:]])) if len(out) > 1 else [() for _ in ts]
        return ts, rows

    def counts(self, state):
        vals = list(state.values())
        return tuple(vals.count(s) for s in self.ret)

    def oracle(self, state):
        ev = {}
        for u in self.nodes:
            r = rate_of(self.rules, self.adj, u, state, self.nodew)
            if r > 0:
                if state[u] in self.alt:
                    ev[(u, self.nextstatus[state[u]], None)] = r / 2.0
                    ev[(u, self.alt[state[u]], None)] = r / 2.0
                else:
                    ev[(u, self.nextstatus[state[u]], None)] = r
        return ev

    def apply(self, state, key):
        return oracles.apply_event(state, key)


def prop_tree(case, walk=None, max_depth=10, max_levels=1500):
    model = ComplexModel(case)
    flags = {'deep': 0, 'ended': False}

    def observe(hist, state, stats):
        flags['deep'] = max(flags['deep'], len(hist))
        if len(hist) < max_depth:
            flags['ended'] = True
    fails, stats = steplaw.explore(model, 'Gillespie_complex_contagion', walk=walk, max_depth=max_depth,
                                   max_levels=max_levels, observe=observe)
    kinds = sorted(set(v[0] for v in model.rules.values()))
    classes = (['IC-has-keys-outside-G'] if case.get('ic_extra') else []) + (['repeated-return-status'] if len(set(model.ret)) < len(model.ret) else []) + (['lazy-influence'] if model.lazy else []) + (['chooser-flips-a-coin'] if model.alt else []) + ['rule:' + k for k in kinds] + ['hops%d' % model.hops, 'influence-set-as-' + case.get('infl_form', 'list')] + (['tmax-inf'] if model.tmax == INF else ['tmax-finite'])
    if flags['ended']:
        classes.append('ran-to-extinction-or-horizon')
    nt = flags['deep'] >= 2 and any(k != 'const' for k in kinds)
    res = Result(fails, nontrivial=nt, classes=classes)
    res.stats = stats
    return res


def tree_prop(case):
    return prop_tree(case, walk=None, max_depth=case.get('depth', 5), max_levels=800)


def prop_walk(case):
    return prop_tree(case, walk=case['walk'], max_depth=10)


RPOOL = [0.1, 0.2, 0.3, 0.5, 1.0, 2.0, 0.7]


@st.composite
def model_case(draw):
    ns = draw(st.integers(2, 4))
    names = draw(st.sampled_from([['A', 'B', 'C', 'D'], ['S', 'I', 'R', 'W']]))[:ns]
    gc = draw(gen.graph_case(2, 5, labels=('int', 'perm', 'str'), weighted=False))
    n = len(gc['nodes'])
    rules, nxt = {}, {}
    for s in names:
        others = [x for x in names if x != s]
        nxt[s] = draw(st.sampled_from(others))
        kind = draw(st.sampled_from(['none', 'const', 'threshold', 'threshold', 'linear', 'linear', 'pernode']))
        if kind == 'none':
            continue
        r = draw(st.one_of(st.sampled_from(RPOOL), st.floats(0.05, 5.0, allow_nan=False)))
        X = draw(st.sampled_from(names))
        theta = draw(st.integers(1, 2))
        hops = draw(st.sampled_from([1, 1, 2]))
        rules[s] = [kind, r, X, theta, hops]
    if not rules:
        s = names[0]
        rules[s] = ['linear', 1.0, names[1], 1, 1]
    IC = [draw(st.sampled_from(names)) for _ in range(n)]
    sub = [s for s in names if draw(st.booleans())] or [names[0]]
    tmin = draw(st.sampled_from([0, 0, -1.5, 2]))
    ic_extra = [draw(st.sampled_from(names)) for _ in range(draw(st.integers(1, 3)))] if draw(st.integers(0, 3)) == 0 else []
    if draw(st.integers(0, 5)) == 0:
        sub = sub + [draw(st.sampled_from(sub))]        # a status asked for twice is returned twice
    alt = {}
    if ns >= 3 and draw(st.integers(0, 2)) == 0:
        s = draw(st.sampled_from(sorted(rules)))
        alt[s] = draw(st.sampled_from([x for x in names if x != s and x != nxt[s]]))
    return {'alt': alt, 'ic_extra': ic_extra, 'gc': gc, 'statuses': names, 'rules': rules, 'next': nxt, 'IC': IC,
            'ret': list(draw(st.permutations(sub))), 'tmin': tmin,
            'tmax': draw(st.sampled_from(['inf', 'inf', tmin + 1.0, tmin + 2.25, tmin + 100])),
            'walk': draw(st.lists(st.integers(0, 7), min_size=0, max_size=10)),
            'infl_form': draw(st.sampled_from(['list', 'tuple', 'iter', 'generator', 'dictkeys'])),
            'lazy_influence': draw(st.booleans()),
            'nodew': [draw(st.sampled_from([1.0, 1.0, 2.0, 3.0, 5.0, 0.5])) for _ in range(n)]}


def canonical_cases(quick):
    specs = [
        # Watts threshold model: inactive node activates when >=2 neighbours active
        (['I', 'A'], {'I': ['threshold', 1.0, 'A', 2, 1]}, {'I': 'A', 'A': 'I'}),
        # SIR written as a complex contagion
        (['S', 'I', 'R'], {'S': ['linear', 1.5, 'I', 1, 1], 'I': ['const', 1.0, 'I', 1, 1]}, {'S': 'I', 'I': 'R', 'R': 'S'}),
        # residue-prone rates 0.1/0.2/0.3 with recovery: every rate eventually zero
        (['S', 'I', 'R'], {'S': ['linear', 0.1, 'I', 1, 1], 'I': ['const', 0.3, 'I', 1, 1]}, {'S': 'I', 'I': 'R', 'R': 'S'}),
        # two-hop influence, SIS-like
        (['S', 'I'], {'S': ['threshold', 2.0, 'I', 1, 2], 'I': ['const', 0.7, 'I', 1, 1]}, {'S': 'I', 'I': 'S'}),
        # independent adopters with heterogeneous per-node rates (the heaviest candidate leaves, nobody is re-rated)
        (['U', 'A'], {'U': ['pernode', 1.0, 'A', 1, 1]}, {'U': 'A', 'A': 'U'}),
        # S->E->I cascade: only the E->I step changes anybody else's rate (lazy influence function)
        (['S', 'E', 'I'], {'S': ['linear', 1.0, 'I', 1, 1], 'E': ['const', 2.0, 'I', 1, 1]}, {'S': 'E', 'E': 'I', 'I': 'S'}),
        # infected nodes recover to R or back to S, the chooser flipping its own coin
        (['S', 'I', 'R'], {'S': ['linear', 1.0, 'I', 1, 1], 'I': ['const', 1.0, 'I', 1, 1]}, {'S': 'I', 'I': 'R', 'R': 'S'}, {'I': 'S'}),
    ]
    for spec in specs:
        statuses, rules, nxt = spec[:3]
        alt_ = spec[3] if len(spec) > 3 else {}
        for n in (2, 3) if quick else (2, 3, 4):
            graphs = list(gen.all_graphs(n))
            if n == 4:
                graphs = [g for g in graphs if len(g) >= 3][::4]
            for edges in graphs:
                ics = [[statuses[-1 if len(statuses) == 2 else 1]] + [statuses[0]] * (n - 1),
                       [statuses[0]] * n,
                       [statuses[(i + 1) % len(statuses)] for i in range(n)]]
                if n >= 3:
                    ics.append([statuses[-1 if len(statuses) == 2 else 1]] * 2 + [statuses[0]] * (n - 2))
                for IC in ics:
                    for tmax in ('inf', 2.0):
                        k_form = ['list', 'iter', 'generator', 'tuple'][(len(edges) + n + len(IC[0])) % 4]
                        yield {'alt': alt_, 'lazy_influence': True, 'nodew': [5.0, 1.0, 1.0, 3.0][:n], 'infl_form': k_form, 'gc': {'nodes': list(range(n)), 'edges': edges, 'ew': None, 'nw': None},
                               'statuses': statuses, 'rules': rules, 'next': nxt, 'IC': IC, 'ret': statuses,
                               'tmin': 0, 'tmax': tmax, 'depth': 5 if quick else 6}


def long_run_cases(seed, quick):
    yield {'kind': 'stages', 'nodes': 30, 'stages': 3600 if quick else 12000, 'seed': seed * 17 + 3}
    yield {'kind': 'hub', 'leaves': 3000 if quick else 20000, 'seed': seed * 19 + 5}


def prop_long_run(case):
    """more than 1e5 events in one call (independent nodes stepping through thousands of stages: the run must end with every node in
    the last stage after exactly nodes*stages events), and a first event on a star whose hub has rate ~1e2 x leaves against leaves of
    rate 1e-9 (the hub must fire first: a leaf first has probability < 1e-7)"""
    import random
    import EoN
    import numpy as np
    fails = []
    random.seed(case['seed']); np.random.seed(case['seed'] % 2 ** 32)
    try:
        if case['kind'] == 'stages':
            N, K = case['nodes'], case['stages']
            G = nx.empty_graph(N)

            def rate(G_, node, status, parameters):
                return 1.0 if status[node] < K else 0.0

            def choose(G_, node, status, parameters):
                return status[node] + 1

            def influence(G_, node, status, parameters):
                return []
            out = EoN.Gillespie_complex_contagion(G, rate, choose, influence, {u: 0 for u in G}, (K,), tmax=1e15, parameters=())
            t, last = out
            if int(last[-1]) != N or len(t) != N * K + 1:
                fails.append(Failure('Gillespie_complex_contagion:long-run:stops-early',
                                     '%d independent nodes stepping through %d stages at rate 1, tmax=1e15: %d events reported (expected %d), %d nodes in the last stage'
                                     % (N, K, len(t) - 1, N * K, int(last[-1]))))
        else:
            L = case['leaves']
            G = nx.star_graph(L)

            def rate(G_, node, status, parameters):
                if status[node] != 'S':
                    return 0.0
                return 100.0 * L if node == 0 else 1e-9

            def choose(G_, node, status, parameters):
                return 'I'

            def influence(G_, node, status, parameters):
                return []
            for rep in range(6):
                out = EoN.Gillespie_complex_contagion(G, rate, choose, influence, {u: 'S' for u in G}, ('S', 'I'), tmax=1e-3, parameters=(),
                                                      return_full_data=True)
                changed = sorted((out.node_history(u)[0][1], u) for u in G if len(out.node_history(u)[0]) > 1)
                first = [u for _t, u in changed[:3]]
                if not first or first[0] != 0:
                    fails.append(Failure('Gillespie_complex_contagion:long-run:wrong-node-first',
                                         'star with %d leaves, hub rate %g, leaf rate 1e-9: node(s) %r changed before the hub' % (L, 100.0 * L, first[:3])))
                    break
    except Exception as e:
        fails.append(Failure('Gillespie_complex_contagion:long-run:exception:%s' % type(e).__name__, '%r' % (e,)))
    return Result(fails, nontrivial=True, classes=['long-run:' + case['kind']])


def replay(ctx, sub, case):
    if sub == 'long-run':
        return prop_long_run(case).failures
    if 'walk' in case:
        return prop_walk(case).failures
    return tree_prop(case).failures


def run(ctx):
    quick = ctx.tier == 'quick'
    ctx.rule = ('Hypothesis: 2-4 statuses, per-status rate rule (none/const/threshold/linear over 1- or 2-hop balls, rates incl. '
                '0.1/0.2/0.3), deterministic or coin-flipping chooser, influence set = ball of the largest hop radius (ordered list), graph n<=5, '
                'initial statuses, tmax in {inf, small}, walk <=10 events; canonical threshold / SIR-as-complex / two-hop models: '
                'complete history trees (depth %d) on all graphs n<=3%s. Every step: exact next-node law == rate/sum (1e-9), clock == '
                'sum, new status == chooser, stop exactly when all rates are 0 or the horizon is reached, counts track statuses. '
                'Non-trivial: >=2 events and a neighbour-dependent rule; distinct by case digest.' % (5 if quick else 6, '' if quick else ' and a sample of n=4'))
    ctx.assumptions = ['influence set covers the dependence radius of the rate function (property precondition)',
                       'rate function and influence function are pure, the chooser is deterministic or draws from the forking source (its own coin between two targets); the influence set is returned as an ordered container or one-shot iterator (list, tuple, iterator, generator, dict keys)', 'chooser never returns the current status']
    only = getattr(ctx, 'only', None)
    if not only or 'canonical' in only:
        c01.run_exhaustive(ctx, 'canonical', canonical_cases(quick), 'eonverif.props.c15', 'tree_prop')
    if not only or 'long-run' in only:
        from ..runner import run_cases
        run_cases(ctx, 'long-run', long_run_cases(ctx.seed, quick), prop_long_run, case_timeout=900)
    if not only or 'walk' in only:
        run_hypothesis(ctx, 'walk', model_case(), prop_walk, 500 if quick else 20000,
                       min_class_fraction={'tmax-inf': 0.2, 'hops2': 0.1})
