"""C17 - percolation-based probability/size estimators compute what they document.

Hypothesis: directed graphs n<=9 (no edges, several equally large SCCs, DAGs, cycles) for
estimate_SIR_prob_size_from_dir_perc; contact networks + deterministic rule tables (xi, zeta, transmission; delay /
duration tables) for the non-Markovian variants; seeded RNG + spy on the public builder for the Markovian ones.
Oracle: brute-force reachability (own DFS): the pair must be (|in-set|/N, |out-set|/N) of SOME largest SCC.
"""
import random
import networkx as nx
from hypothesis import strategies as st

from ..runner import Failure, Result, run_hypothesis, exc_signature
from .. import oracles, gen

ID = 'C17'
LEVEL = 'exploration'


def admissible_pairs(nodes, succ):
    comps, r = oracles.sccs(nodes, succ)
    m = max(len(c) for c in comps)
    N = float(len(nodes))
    out = set()
    for c in comps:
        if len(c) != m:
            continue
        u = next(iter(c))
        outset = r[u]
        inset = set(v for v in nodes if u in r[v])
        out.add((len(inset) / N, len(outset) / N))
    return out, m, sum(1 for c in comps if len(c) == m)


def succ_of(H, nodes):
    return {u: list(H.successors(u)) for u in nodes}


def check_pair(name, pair, nodes, succ):
    fails = []
    try:
        PE, AR = pair
    except Exception:
        return [Failure('%s:not-a-pair' % name, 'returned %r' % (pair,))]
    adm, m, ties = admissible_pairs(nodes, succ)
    if not (0 <= PE <= 1 and 0 <= AR <= 1):
        fails.append(Failure('%s:out-of-range' % name, 'returned (%r, %r)' % (PE, AR)))
    if not any(abs(PE - a) < 1e-12 and abs(AR - b) < 1e-12 for a, b in adm):
        swapped = any(abs(PE - b) < 1e-12 and abs(AR - a) < 1e-12 for a, b in adm)
        fails.append(Failure('%s:wrong-pair%s' % (name, ':swapped' if swapped else ''),
                             'returned (%.6g, %.6g); (in-fraction, out-fraction) of a largest SCC (size %d, %d such) can only be %r'
                             % (PE, AR, m, ties, sorted(adm))))
    return fails


@st.composite
def digraph_case(draw):
    n = draw(st.integers(1, 9))
    fam = draw(st.sampled_from(['random', 'random', 'dag', 'cycle', 'two-cycles', 'empty', 'sparse', 'cycle+clique']))
    labels = draw(gen.label_scheme(n, ('int', 'str', 'tuple')))
    edges = []
    idx = list(range(n))
    if fam == 'random':
        for a in idx:
            for b in idx:
                if a != b and draw(st.integers(0, 3)) == 0:
                    edges.append([a, b])
    elif fam == 'sparse':
        for a in idx:
            for b in idx:
                if a != b and draw(st.integers(0, 7)) == 0:
                    edges.append([a, b])
    elif fam == 'dag':
        for a in idx:
            for b in idx:
                if a < b and draw(st.booleans()):
                    edges.append([a, b])
    elif fam == 'cycle':
        edges = [[i, (i + 1) % n] for i in idx] if n > 1 else []
        if n > 2 and draw(st.booleans()):
            edges.append([0, n // 2])
    elif fam == 'cycle+clique' and n >= 7:
        # two strongly connected components ranked differently by nodes and by arcs: a long one-way cycle and a small bidirected clique
        m = draw(st.integers(3, min(4, n - 4)))
        k = n - m
        edges = [[i, (i + 1) % k] for i in range(k)] + [[k + a, k + b] for a in range(m) for b in range(m) if a != b]
        if draw(st.booleans()):
            edges.append([0, k])
    elif fam == 'two-cycles' and n >= 4:
        h = n // 2
        edges = [[i, (i + 1) % h] for i in range(h)] + [[h + i, h + (i + 1) % h] for i in range(h)]
        if draw(st.booleans()):
            edges.append([0, h])
        if n % 2 and draw(st.booleans()):
            edges.append([n - 1, 0])
    return {'nodes': labels, 'edges': [[labels[a], labels[b]] for a, b in edges], 'family': fam}


def prop_dirperc(case):
    import EoN
    nodes = [oracles.tolabel(u) for u in case['nodes']]
    H = nx.DiGraph()
    H.add_nodes_from(nodes)
    H.add_edges_from((oracles.tolabel(a), oracles.tolabel(b)) for a, b in case['edges'])
    succ = succ_of(H, nodes)
    name = 'estimate_SIR_prob_size_from_dir_perc'
    try:
        pair = EoN.estimate_SIR_prob_size_from_dir_perc(H)
        fails = check_pair(name, pair, nodes, succ)
    except Exception as e:
        fails = [Failure('%s:exception:%s' % (name, exc_signature(e)), 'raised %r' % (e,))]
    adm, m, ties = admissible_pairs(nodes, succ)
    return Result(fails, nontrivial=len(nodes) >= 3 and (ties >= 2 or m >= 2) and len(case['edges']) >= 2,
                  classes=['family=' + case['family']] + (['several-largest-SCC'] if ties >= 2 else []) + (['no-edges'] if not case['edges'] else []))


# ---------------------------------------------------------------------------
# variants on a contact network
# ---------------------------------------------------------------------------

RULES = ['product', 'threshold-sum', 'xi-only', 'zeta-only']


def transmission_rule(kind):
    if kind == 'product':
        return lambda x, z: x * z > 0.3
    if kind == 'threshold-sum':
        return lambda x, z: x + 2 * z > 1.2
    if kind == 'xi-only':
        return lambda x, z: x > 0.5
    return lambda x, z: z > 0.5


@st.composite
def contact_case(draw):
    gc = draw(gen.graph_case(1, 8, labels=('int', 'str', 'tuple'), weighted=False, directed=draw(st.integers(0, 3)) == 0))   # one-way contacts too
    nodes, adj = oracles.adjacency(gc)
    pairs = [(u, v) for u in nodes for v in adj[u]]
    vals = st.sampled_from([0.1, 0.3, 0.45, 0.6, 0.8, 1.0])
    return {'gc': gc, 'xi': [draw(vals) for _ in nodes], 'zeta': [draw(vals) for _ in nodes], 'rule': draw(st.sampled_from(RULES)),
            'numtype': draw(st.sampled_from(['float', 'numpy', 'int-answer'])),
            'dur': [draw(st.sampled_from([0, 0.5, 1, 2, 'inf', 0.5, 1, 2, 'nan'])) for _ in nodes],         # nan: missing data; `delay <= duration` is then False
            'delay': [draw(st.sampled_from([0, 0.5, 1, 1.5, 3, 'inf', 0.5, 1, 1.5, 'nan'])) for _ in pairs],
            'multi': draw(st.integers(0, 3)) == 0,          # contact network given as a MultiGraph with repeated edges (nx.configuration_model output)
            'p': draw(st.sampled_from([0.0, 1.0, 0.5, 0.3, 0.7])), 'tau': draw(gen.pos_rates), 'gamma': draw(gen.rates),
            'seed': draw(st.integers(0, 10 ** 6))}


def _num(d):
    return float(d) if isinstance(d, str) else d        # 'inf' / 'nan'


def _spy(modname, fname, captured):
    import EoN.simulation as sim
    orig = getattr(sim, fname, None)
    if orig is None:
        return None, None

    def spy(*a, **k):
        H = orig(*a, **k)
        captured.append(H)
        return H
    setattr(sim, fname, spy)
    return sim, orig


def prop_contact(case):
    import EoN
    gc = case['gc']
    nodes, adj = oracles.adjacency(gc)
    pairs = [(u, v) for u in nodes for v in adj[u]]
    G = oracles.build_graph(gc)
    Gsimple = G
    if case.get('multi') and not gc.get('directed'):
        import networkx as _nx
        G = _nx.MultiGraph()
        G.add_nodes_from(Gsimple.nodes())
        for k, (a, b) in enumerate(Gsimple.edges()):
            G.add_edge(a, b)
            if k % 2 == 0:
                G.add_edge(b, a)            # a parallel edge: the same contact listed twice
    N = len(nodes)
    fails = []
    import numpy as _np
    xi = dict(zip(nodes, case['xi']))
    zeta = dict(zip(nodes, case['zeta']))
    base_rule = transmission_rule(case['rule'])
    rule = base_rule
    if case.get('numtype') == 'numpy':
        # attributes held as numpy scalars: the rule's answer is then a numpy.bool_, not the singleton True
        xi = {u: _np.float64(x) for u, x in xi.items()}
        zeta = {u: _np.float64(x) for u, x in zeta.items()}
    elif case.get('numtype') == 'int-answer':
        rule = (lambda x, z: 1 if base_rule(x, z) else 0)
    want_edges = set((u, v) for (u, v) in pairs if base_rule(float(xi[u]), float(zeta[v])))
    # nonMarkov_directed_percolate_network (public builder)
    name = 'nonMarkov_directed_percolate_network'
    try:
        H = EoN.nonMarkov_directed_percolate_network(G, xi, zeta, rule)
        if set(H.nodes()) != set(nodes) or not H.is_directed():
            fails.append(Failure('%s:node-set' % name, 'nodes %r directed=%r; G has %r' % (sorted(H.nodes(), key=repr), H.is_directed(), nodes)))
        elif set(H.edges()) != want_edges:
            sw = set((u, v) for (u, v) in pairs if rule(xi[v], zeta[u]))
            fails.append(Failure('%s:edge-rule%s' % (name, ':roles-swapped' if set(H.edges()) == sw and sw != want_edges else ''),
                                 'edges %r; transmission(xi[u], zeta[v]) holds exactly for %r' % (sorted(H.edges(), key=repr), sorted(want_edges, key=repr))))
    except Exception as e:
        fails.append(Failure('%s:exception:%s' % (name, exc_signature(e)), 'raised %r' % (e,)))
    # estimate_nonMarkov_SIR_prob_size
    name = 'estimate_nonMarkov_SIR_prob_size'
    try:
        pair = EoN.estimate_nonMarkov_SIR_prob_size(G, xi, zeta, rule)
        succ = {u: [v for v in adj[u] if (u, v) in want_edges] for u in nodes}
        fails += check_pair(name, pair, nodes, succ)
    except Exception as e:
        fails.append(Failure('%s:exception:%s' % (name, exc_signature(e)), 'raised %r' % (e,)))
    # the timing builder itself, with and without attributes
    dur_ = {u: _num(d) for u, d in zip(nodes, case['dur'])}
    delay_ = {p_: _num(d) for p_, d in zip(pairs, case['delay'])}
    keep = set(p_ for p_ in pairs if delay_[p_] <= dur_[p_[0]])
    for w in (True, False):
        bname = 'nonMarkov_directed_percolate_network_with_timing'
        try:
            Hb = EoN.nonMarkov_directed_percolate_network_with_timing(G, lambda u, v: delay_[(u, v)], lambda u: dur_[u], weights=w)
            if set(Hb.nodes()) != set(nodes) or set(Hb.edges()) != keep:
                fails.append(Failure('%s:edge-rule:weights=%s' % (bname, w), 'weights=%s: edges %r; delay<=duration holds exactly for %r'
                                     % (w, sorted(Hb.edges(), key=repr), sorted(keep, key=repr))))
        except Exception as e:
            fails.append(Failure('%s:exception:%s' % (bname, exc_signature(e)), 'raised %r' % (e,)))
    # with timing
    name = 'estimate_nonMarkov_SIR_prob_size_with_timing'
    dur = {u: _num(d) for u, d in zip(nodes, case['dur'])}
    delay = {p: _num(d) for p, d in zip(pairs, case['delay'])}
    try:
        pair = EoN.estimate_nonMarkov_SIR_prob_size_with_timing(G, lambda u, v, s: delay[(u, v)] * s, lambda u, a, b: dur[u],
                                                                trans_time_args=(1,), rec_time_args=(0, 0))
        succ = {u: [v for v in adj[u] if delay[(u, v)] <= dur[u]] for u in nodes}
        fails += check_pair(name, pair, nodes, succ)
    except Exception as e:
        fails.append(Failure('%s:exception:%s' % (name, exc_signature(e)), 'raised %r' % (e,)))
    if gc.get('directed'):
        # the bond-percolation estimators below are about undirected contact networks
        nt = len(want_edges) >= 1 and len(want_edges) < len(pairs) and N >= 3
        return Result(fails, nontrivial=nt, classes=['rule=' + case['rule'], 'directed-contact-network'] + (['nan-timing'] if 'nan' in case['dur'] + case['delay'] else []))
    # estimate_SIR_prob_size (bond percolation) with the percolated graph spied
    name = 'estimate_SIR_prob_size'
    cap = []
    sim, orig = _spy('EoN.simulation', 'percolate_network', cap)
    try:
        random.seed(case['seed'])
        pair = EoN.estimate_SIR_prob_size(Gsimple, case['p'])
        if cap:
            Hp = cap[-1]
            und = {u: list(Hp.neighbors(u)) for u in nodes}
            comps, _ = oracles.sccs(nodes, und)
            frac = max(len(c) for c in comps) / float(N)
            if not (abs(pair[0] - frac) < 1e-12 and abs(pair[1] - frac) < 1e-12):
                fails.append(Failure('%s:not-largest-component-fraction' % name, 'returned %r; largest component of the percolated graph / N = %r' % (pair, frac)))
            if set(Hp.nodes()) != set(nodes) or not set(frozenset(e) for e in Hp.edges()) <= set(frozenset(p) for p in pairs):
                fails.append(Failure('percolate_network:not-a-subgraph-on-the-same-nodes', 'percolated graph is not a spanning subgraph of G'))
        else:
            if not (0 <= pair[0] <= 1 and pair[0] == pair[1]):
                fails.append(Failure('%s:range' % name, 'returned %r' % (pair,)))
        if case['p'] == 1.0:
            undG = {u: list(adj[u]) for u in nodes}
            comps, _ = oracles.sccs(nodes, undG)
            frac = max(len(c) for c in comps) / float(N)
            if abs(pair[0] - frac) > 1e-12:
                fails.append(Failure('%s:p=1' % name, 'p=1 returned %r, largest component of G / N = %r' % (pair, frac)))
        if case['p'] == 0.0 and abs(pair[0] - 1.0 / N) > 1e-12:
            fails.append(Failure('%s:p=0' % name, 'p=0 returned %r, expected 1/N' % (pair,)))
    except Exception as e:
        fails.append(Failure('%s:exception:%s' % (name, exc_signature(e)), 'raised %r' % (e,)))
    finally:
        if sim is not None:
            sim.percolate_network = orig
    # estimate_directed_SIR_prob_size with the directed percolation spied
    name = 'estimate_directed_SIR_prob_size'
    cap2 = []
    sim, orig = _spy('EoN.simulation', 'directed_percolate_network', cap2)
    try:
        random.seed(case['seed'] + 1)
        pair = EoN.estimate_directed_SIR_prob_size(Gsimple, case['tau'], case['gamma'])
        if cap2:
            Hd = cap2[-1]
            if set(Hd.nodes()) != set(nodes) or not set(Hd.edges()) <= set(pairs):
                fails.append(Failure('directed_percolate_network:not-on-G', 'percolated digraph nodes/edges are not those of G'))
            else:
                fails += check_pair(name, pair, nodes, succ_of(Hd, nodes))
        elif not (0 <= pair[0] <= 1 and 0 <= pair[1] <= 1):
            fails.append(Failure('%s:range' % name, 'returned %r' % (pair,)))
    except Exception as e:
        fails.append(Failure('%s:exception:%s' % (name, exc_signature(e)), 'raised %r' % (e,)))
    finally:
        if sim is not None:
            sim.directed_percolate_network = orig
    nt = len(want_edges) >= 1 and len(want_edges) < len(pairs) and N >= 3
    return Result(fails, nontrivial=nt, classes=['rule=' + case['rule'], 'answers=' + case.get('numtype', 'float')] + (['multigraph'] if G is not Gsimple else []) + (['nan-timing'] if 'nan' in case['dur'] + case['delay'] else []) + (['spied'] if cap and cap2 else ['not-spied']))


def replay(ctx, sub, case):
    if sub == 'dir_perc':
        return prop_dirperc(case).failures
    return prop_contact(case).failures


def run(ctx):
    quick = ctx.tier == 'quick'
    ctx.rule = ('Hypothesis: (dir_perc) directed graphs n<=9 from families random/sparse/DAG/cycle/two equal cycles/empty with any labels: '
                'returned pair must be (in-fraction, out-fraction) of SOME largest SCC by own DFS; non-trivial: n>=3, >=2 edges and '
                '(largest SCC size >=2 or several largest). (contact) networks n<=8 + xi/zeta tables + 4 transmission rules + delay/'
                'duration tables + p + tau/gamma + seed: percolated graph == rule, estimators == oracle on it (builders spied at '
                'the public function boundary); non-trivial: rule keeps some but not all ordered pairs.')
    ctx.assumptions = ['user rules are deterministic functions of their arguments', 'spies replace the module-level public builders only for the duration of a call']
    only = getattr(ctx, 'only', None)
    if not only or 'dir_perc' in only:
        run_hypothesis(ctx, 'dir_perc', digraph_case(), prop_dirperc, 2000 if quick else 100000)
    if not only or 'contact' in only:
        run_hypothesis(ctx, 'contact', contact_case(), prop_contact, 800 if quick else 30000)
