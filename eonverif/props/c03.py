"""C03 - Gillespie_simple_contagion realises exactly the user-specified transitions.

Hypothesis generates model specifications (2-4 statuses, spontaneous edges A->B, induced edges (A,B)->(A,C), rates,
optional weight_label / rate_function with kwargs), directed or undirected contact networks, initial statuses and
a walk; at every step the exact law over (node, new status, inducing neighbour) extracted with the forking
random source is compared with the rate shares of the specified chain; clock rate = total rate; nothing
else may happen.  Canonical models (SIS, SIR, SIRS, SEIR, competing, cooperating, vaccination) get complete
history trees on small graphs.
"""
import itertools
import networkx as nx
from hypothesis import strategies as st

from ..runner import Failure, Result, run_hypothesis
from .. import oracles, steplaw, gen, forkrng
from . import c01

ID = 'C03'
LEVEL = 'exploration'
INF = float('inf')


class SimpleModel(object):
    has_source = True

    def __init__(self, case):
        self.case = case
        gc = case['gc']
        self.gc = gc
        self.directed = bool(gc.get('directed'))
        self.nodes, self.adj = oracles.adjacency(gc)
        self.G = oracles.build_graph(gc)
        self.tmin = case.get('tmin', 0)
        self.tmax = INF if case.get('tmax', 'inf') == 'inf' else case['tmax']
        self.init = dict(zip(self.nodes, case['IC']))
        self.statuses = list(case['statuses'])
        self.ret_full = list(case.get('ret_full') or self.statuses)
        self.ret_arr = list(case.get('ret_arr') or self.statuses)
        self.scale_s = case.get('scale_s', 1.0)
        self.scale_n = case.get('scale_n', 1.0)
        nwl = list(gc['nw'])[0] if gc.get('nw') else None
        ewl = list(gc['ew'])[0] if gc.get('ew') else None
        self.nwl, self.ewl = nwl, ewl
        nlab = oracles.node_weight_fn(gc, nwl)
        elab = oracles.edge_weight_fn(gc, ewl)
        fn_node = dict(zip(self.nodes, case.get('fn_node') or [1.0] * len(self.nodes)))
        fn_edge = {}
        fwd = case.get('fn_fwd') or [1.0] * len(gc['edges'])
        rev = case.get('fn_rev') or [1.0] * len(gc['edges'])
        for e, a, b in zip(gc['edges'], fwd, rev):
            u, v = oracles.tolabel(e[0]), oracles.tolabel(e[1])
            fn_edge[(u, v)] = a
            if not self.directed:
                fn_edge[(v, u)] = b
        self.fn_node, self.fn_edge = fn_node, fn_edge
        # oracle tables
        self.spont = []   # (A, B, rate, weight(u))
        for A, B, rate, mode in case['spont']:
            if mode == 'label':
                w = nlab
            elif mode == 'fn':
                w = (lambda u, s=self.scale_s: fn_node[u] * s)
            else:
                w = (lambda u: 1.0)
            self.spont.append((A, B, rate, w, mode))
        self.induced = []
        for A, B, C, rate, mode in case['induced']:
            if mode == 'label':
                w = elab
            elif mode == 'fn':
                w = (lambda u, v, s=self.scale_n: fn_edge[(u, v)] * s)
            else:
                w = (lambda u, v: 1.0)
            self.induced.append((A, B, C, rate, w, mode))

    def graphs(self):
        H = nx.DiGraph()
        if self.case.get('list_all_statuses', True):
            H.add_nodes_from(self.statuses)      # otherwise only statuses with a spontaneous edge appear (documented as sufficient)
        fn_node, fn_edge = self.fn_node, self.fn_edge
        for A, B, rate, w, mode in self.spont:
            attrs = {'rate': rate}
            if mode == 'label':
                attrs['weight_label'] = self.nwl
            elif mode == 'fn':
                attrs['rate_function'] = (lambda G, node, scale=1.0: fn_node[node] * scale)
            H.add_edge(A, B, **attrs)
        J = nx.DiGraph()
        for A, B, C, rate, w, mode in self.induced:
            attrs = {'rate': rate}
            if mode == 'label':
                attrs['weight_label'] = self.ewl
            elif mode == 'fn':
                attrs['rate_function'] = (lambda G, source, target, scale=1.0: fn_edge[(source, target)] * scale)
            J.add_edge((A, B), (A, C), **attrs)
        return H, J

    def run(self, rng, full):
        import EoN
        H, J = self.graphs()
        IC = dict(self.init)
        kw = {}
        if any(m == 'fn' for *_, m in self.spont):
            kw['spont_kwargs'] = {'scale': self.scale_s}
        if any(m == 'fn' for *_, m in self.induced):
            kw['nbr_kwargs'] = {'scale': self.scale_n}
        args = [self.G, H, J, IC, self.ret_full if full else self.ret_arr]
        kw.update(tmin=self.tmin, tmax=self.tmax, return_full_data=full)
        if (len(self.case['gc']['edges']) + len(self.statuses)) % 2 == 1:
            from .. import simrun
            args, kw = simrun.positional('Gillespie_simple_contagion', args, kw)      # every argument by position, in the documented order
        return EoN.Gillespie_simple_contagion(*args, **kw)

    def events(self, out):
        ev = []
        src = {}
        for (t, u, v) in out.transmissions():
            if u is not None:
                src[(t, v)] = u
        for u in self.nodes:
            ts, ss = out.node_history(u)
            for t, s in list(zip(ts, ss))[1:]:
                ev.append((t, u, s, src.get((t, u))))
        ev.sort(key=lambda e: e[0])
        return ev

    def rows(self, out):
        ts = list(out[0])
        rows = list(zip(*[[int(x) for x in col] for col in out[1:]])) if len(out) > 1 else [() for _ in ts]
        return ts, rows

    def counts(self, state):
        vals = list(state.values())
        return tuple(vals.count(s) for s in self.ret_arr)

    def oracle(self, state):
        ev = {}
        for u in self.nodes:
            A = state[u]
            for (a, b, rate, w, _) in self.spont:
                if a == A:
                    r = rate * w(u)
                    if r > 0:
                        ev[(u, b, None)] = ev.get((u, b, None), 0.0) + r
            for v in self.adj[u]:
                for (a, b, c, rate, w, _) in self.induced:
                    if a == A and b == state[v]:
                        r = rate * w(u, v)
                        if r > 0:
                            ev[(v, c, u)] = ev.get((v, c, u), 0.0) + r
        return ev

    def apply(self, state, key):
        return oracles.apply_event(state, key)


def prop_tree(case, walk=None, max_depth=10, max_levels=1500):
    model = SimpleModel(case)
    flags = {'kinds': 0, 'induced': False, 'deep': 0}

    def observe(hist, state, stats):
        flags['deep'] = max(flags['deep'], len(hist))
        if any(e[2] is not None for e in hist):
            flags['induced'] = True
    # count enabled transition kinds at the start (cheap proxy, refined by observe)
    fails, stats = steplaw.explore(model, 'Gillespie_simple_contagion', walk=walk, max_depth=max_depth,
                                   max_levels=max_levels, observe=observe)
    kinds = set()
    for k in model.oracle(model.init):
        kinds.add((model.init[k[0]], k[1], k[2] is None))
    classes = ['directed' if model.directed else 'undirected'] + (['tiny-weights'] if case.get('tiny') else []) + \
        ([] if case.get('list_all_statuses', True) else ['spontaneous-graph-without-isolated-statuses'])
    if any(m == 'label' for *_, m in model.spont) or any(m == 'label' for *_, m in model.induced):
        classes.append('weight_label')
    if any(m == 'fn' for *_, m in model.spont) or any(m == 'fn' for *_, m in model.induced):
        classes.append('rate_function')
    nt = flags['deep'] >= 3 and len(kinds) >= 2 and flags['induced']
    if any(t_[0] == t_[1] for t_ in case['spont']) or any(t_[1] == t_[2] for t_ in case['induced']):
        classes.append('null-transition')
    res = Result(fails, nontrivial=nt, classes=classes + (['nontrivial'] if nt else []))
    res.stats = stats
    return res


def tree_prop(case):
    return prop_tree(case, walk=None, max_depth=case.get('depth', 4), max_levels=600)


def prop_walk(case):
    return prop_tree(case, walk=case['walk'], max_depth=10)


# ---------------------------------------------------------------------------
# generators
# ---------------------------------------------------------------------------

RATE = st.one_of(st.sampled_from([0.5, 1.0, 2.0]), st.floats(0.05, 5.0, allow_nan=False))


@st.composite
def spec_case(draw):
    ns = draw(st.integers(2, 4))
    names = draw(st.sampled_from([['A', 'B', 'C', 'D'], ['S', 'I', 'R', 'E'], ['Sus', 'Inf', 'Rec', 'Vac'],
                                   ['A', 'B', 'AB', 'BA'], ['I', 'S', 'SI', 'IS']]))[:ns]   # compound names spell other statuses
    directed = draw(st.booleans())
    gc = draw(gen.graph_case(3, 5, labels=('int', 'perm', 'str', 'tuple'), directed=directed, weighted=True, selfloops=True,
                                 family=draw(st.sampled_from(['random', 'complete', 'cycle', 'star', 'tree', 'path']))))
    n = len(gc['nodes'])
    spont, induced = [], []
    # transitions that leave the status unchanged (a logged 'I'->'I' report event, ('X','A')->('X','A')) are legal specifications:
    # the simulator's own comments cater for old_status == new status
    null_ok = draw(st.integers(0, 3)) == 0
    pairs = [(a, b) for a in names for b in names if a != b or null_ok]
    for (a, b) in pairs:
        if draw(st.integers(0, 2)) == 0:
            spont.append([a, b, draw(RATE), draw(st.sampled_from([None, None, 'label', 'fn']))])
    triples = [(a, b, c) for a in names for b in names for c in names if b != c or null_ok]
    k = draw(st.integers(1, 4))
    idx = draw(st.lists(st.integers(0, len(triples) - 1), min_size=k, max_size=k, unique=True))
    for i in idx:
        a, b, c = triples[i]
        induced.append([a, b, c, draw(RATE), draw(st.sampled_from([None, None, 'label', 'fn']))])
    IC = [draw(st.sampled_from(names)) for _ in range(n)]
    # make sure something can happen: give the first induced edge a matching pair if the graph has an edge
    if gc['edges'] and draw(st.integers(0, 3)) > 0:
        a, b = induced[0][0], induced[0][1]
        u, v = gc['edges'][0]
        lab = [oracles.tolabel(x) for x in gc['nodes']]
        IC[lab.index(oracles.tolabel(u))] = a
        IC[lab.index(oracles.tolabel(v))] = b
    ret_full = list(draw(st.permutations(names)))
    sub = [s for s in names if draw(st.booleans())] or [names[0]]
    ret_arr = list(draw(st.permutations(sub)))
    m = len(gc['edges'])
    wp = st.sampled_from([0.25, 0.5, 1.0, 2.0, 3.0])
    case = {'gc': gc, 'statuses': names, 'spont': spont, 'induced': induced, 'IC': IC,
            'ret_full': ret_full, 'ret_arr': ret_arr,
            'fn_node': [draw(wp) for _ in range(n)], 'fn_fwd': [draw(wp) for _ in range(m)],
            'fn_rev': [draw(wp) for _ in range(m)],
            'scale_s': draw(st.sampled_from([1.0, 2.0, 0.5])), 'scale_n': draw(st.sampled_from([1.0, 3.0])),
            'tmin': draw(st.sampled_from([0, 0, -1.5, 2])), 'tmax': 'inf',
            'walk': draw(st.lists(st.integers(0, 7), min_size=0, max_size=10)),
            'list_all_statuses': draw(st.booleans())}
    if draw(st.integers(0, 4)) == 0:
        # weights of order 1e-9 with rates of order 1e9: same chain, but the candidate sets' running totals are tiny
        case['tiny'] = True
        t = 2.0 ** -30
        for tab in ('fn_node', 'fn_fwd', 'fn_rev'):
            case[tab] = [w * t for w in case[tab]]
        for key in ('ew', 'nw'):
            if gc.get(key):
                gc[key] = {lab: [w * t for w in ws] for lab, ws in gc[key].items()}
        for tr in spont + induced:
            if tr[-1] in ('label', 'fn'):
                tr[-2] = tr[-2] / t
    return case


def canonical_specs():
    """(name, statuses, spont, induced, IC-pattern generator)"""
    return [
        ('SIS', ['S', 'I'], [['I', 'S', 1.0, None]], [['I', 'S', 'I', 2.0, None]]),
        ('SIR', ['S', 'I', 'R'], [['I', 'R', 1.0, None]], [['I', 'S', 'I', 1.5, None]]),
        ('SIRS', ['S', 'I', 'R'], [['I', 'R', 1.0, None], ['R', 'S', 0.5, None]], [['I', 'S', 'I', 2.0, None]]),
        ('SEIR', ['S', 'E', 'I', 'R'], [['E', 'I', 0.6, 'label'], ['I', 'R', 0.1, None]], [['I', 'S', 'E', 0.1, 'label']]),
        ('competing', ['S', 'I', 'J', 'R'], [['I', 'R', 1.0, None], ['J', 'R', 0.8, None]],
         [['I', 'S', 'I', 1.0, None], ['J', 'S', 'J', 1.5, None]]),
        ('cooperating', ['SS', 'SI', 'IS', 'II'], [['SI', 'SS', 1.0, None], ['IS', 'SS', 1.0, None], ['II', 'SI', 1.0, None], ['II', 'IS', 1.0, None]],
         [['IS', 'SS', 'IS', 1.0, None], ['II', 'SS', 'IS', 1.0, None], ['SI', 'SS', 'SI', 1.0, None], ['II', 'SS', 'SI', 1.0, None],
          ['IS', 'SI', 'II', 3.0, None], ['II', 'SI', 'II', 3.0, None], ['SI', 'IS', 'II', 3.0, None], ['II', 'IS', 'II', 3.0, None]]),
        ('vaccination', ['S', 'I', 'R', 'V'], [['I', 'R', 1.0, None], ['S', 'V', 0.3, 'fn']], [['I', 'S', 'I', 2.0, 'fn']]),
        # compound status names that spell other statuses; the spontaneous graph lists only statuses that have an edge
        ('compound-names', ['A', 'B', 'AB'], [['A', 'B', 1.0, None]], [['A', 'AB', 'A', 1.5, None], ['B', 'AB', 'B', 0.5, None]]),
    ]


def canonical_cases(nmax, quick):
    for name, statuses, spont, induced in canonical_specs():
        for n in range(2, nmax + 1):
            graphs = list(gen.all_graphs(n))
            if quick:
                graphs = [g for g in graphs if len(g) >= n - 1][-3:]
            for edges in graphs:
                for directed in (False, True):
                    es = edges if not directed else [e if i % 2 == 0 else [e[1], e[0]] for i, e in enumerate(edges)] + \
                        ([[edges[0][1], edges[0][0]]] if edges else [])
                    gc = {'nodes': list(range(n)), 'edges': es, 'directed': directed,
                          'ew': {'tw': gen.det_weights(len(es), n)}, 'nw': {'rw': gen.det_weights(n, 1)}}
                    first_inf = ([s for s in statuses if 'I' in s] or [statuses[-1]])[0]
                    ics = [[first_inf] + [statuses[0]] * (n - 1)]
                    if not quick:
                        ics.append([statuses[i % len(statuses)] for i in range(n)])
                        ics.append([statuses[0]] * (n - 1) + [statuses[-1]])
                    for IC in ics:
                        yield {'gc': gc, 'statuses': statuses, 'spont': spont, 'induced': induced, 'IC': IC,
                               'fn_node': gen.det_weights(n, 3), 'fn_fwd': gen.det_weights(len(es), 2),
                               'fn_rev': gen.det_weights(len(es), 4), 'scale_s': 2.0, 'scale_n': 0.5,
                               'tmin': 0, 'tmax': 'inf', 'depth': 4 if quick else 5, 'model': name,
                               'list_all_statuses': name != 'compound-names'}


def replay(ctx, sub, case):
    if 'walk' in case:
        return prop_walk(case).failures
    return tree_prop(case).failures


def run(ctx):
    quick = ctx.tier == 'quick'
    ctx.rule = ('Hypothesis: specification with 2-4 statuses, random spontaneous edges and 1-3 induced edges (rates, weight_label '
                'or rate_function+kwargs), contact network n<=5 directed or undirected with edge/node weights, initial statuses, '
                'return_statuses subset in arbitrary order, walk of <=10 events; canonical SIS/SIR/SIRS/SEIR/competing/cooperating/'
                'vaccination models: complete history trees to depth %d on small graphs (directed and undirected). Every step: exact law '
                'over (node,new status,inducing neighbour) == rate share (1e-9), clock rate == total, array-mode counts law. '
                'Non-trivial: >=3 events, >=2 enabled transition kinds initially, >=1 induced event; distinct by case digest.'
                % (4 if quick else 5))
    ctx.assumptions = ['statuses are sortable strings (documented determinism precondition)', 'no multi-edges (self-loops are generated: a node does not act on itself)',
                       'with return_full_data all statuses are listed in return_statuses (array mode uses arbitrary subsets)',
                       'rate functions are pure functions of (node) / (source,target) and kwargs']
    only = getattr(ctx, 'only', None)
    if not only or 'canonical' in only:
        c01.run_exhaustive(ctx, 'canonical', canonical_cases(3, quick), 'eonverif.props.c03', 'tree_prop')
    if not only or 'walk' in only:
        run_hypothesis(ctx, 'walk', spec_case(), prop_walk, 500 if quick else 20000,
                       min_class_fraction={'directed': 0.3, 'weight_label': 0.2, 'rate_function': 0.2})
