"""C12 - discrete-time simulators follow generation-by-generation Reed-Frost dynamics.

(a) discrete_SIR under generated deterministic table rules (directed success table, optional recovery durations)
    vs an independent generation-by-generation reference: arrays, per-node histories, transmissions.
(b) exact whole-run law (forking random source) of basic_discrete_SIR, percolation_based_discrete_SIR and
    basic_discrete_SIS on every labelled graph n<=3 (quick) / plus generated n=4 (thorough) vs the path
    probabilities of the Reed-Frost / discrete-SIS chain (tol 1e-12), array mode and full-data mode.
(c) percolate_network: same node set, law over edge subsets p^k (1-p)^(m-k) (exact).
"""
import itertools
from hypothesis import strategies as st

from ..runner import Failure, Result, HarnessError, run_hypothesis, run_cases, exc_signature, CallBudget, RunawayError
from .. import oracles, gen, forkrng

ID = 'C12'
LEVEL = 'exploration'
INF = float('inf')
TOL = 1e-12


# ---------------------------------------------------------------------------
# (a) table rules
# ---------------------------------------------------------------------------

def reference_discrete_sir(nodes, adj, success, durations, I0, R0, tmin, tmax):
    """Independent generation loop.  success[(u,v)] bool; durations[u] >= 1 steps infectious (None: all 1).
    Returns (t, S, I, R lists, status_at: {node: [(time,status)...]}, contacts: {(time, v): set(u)})."""
    N = len(nodes)
    status = {u: 'S' for u in nodes}
    for u in I0:
        status[u] = 'I'
    for u in R0:
        status[u] = 'R'
    age = {u: 0 for u in I0}
    hist = {u: [(tmin, status[u])] for u in nodes}
    t = tmin
    T, S, I, R = [tmin], [sum(1 for u in nodes if status[u] == 'S')], [len(I0)], [len(R0)]
    contacts = {}
    while any(s == 'I' for s in status.values()) and t < tmax:
        inf = [u for u in nodes if status[u] == 'I']
        new = {}
        for u in inf:
            for v in adj[u]:
                if status[v] == 'S' and success[(u, v)]:
                    new.setdefault(v, set()).add(u)
        nxt = dict(status)
        for u in inf:
            age[u] += 1
            d = 1 if durations is None else durations[u]
            if age[u] >= d:
                nxt[u] = 'R'
        for v in new:
            nxt[v] = 'I'
            age[v] = 0
            contacts[(t, v)] = new[v]
        t = t + 1
        for u in nodes:
            if nxt[u] != status[u]:
                hist[u].append((t, nxt[u]))
        status = nxt
        vals = list(status.values())
        T.append(t); S.append(vals.count('S')); I.append(vals.count('I')); R.append(vals.count('R'))
    return T, S, I, R, hist, contacts


@st.composite
def table_case(draw):
    gc = draw(gen.graph_case(1, 8, labels=('int', 'perm', 'str', 'tuple'), weighted=False))
    nodes = gc['nodes']
    I0, R0 = draw(gen.initial_sets(nodes))
    nodes_l, adj = oracles.adjacency(gc)
    pairs = [(u, v) for u in nodes_l for v in adj[u]]
    pbias = draw(st.sampled_from([0.3, 0.6, 0.9]))
    succ = [draw(st.floats(0, 1)) < pbias for _ in pairs]
    use_dur = draw(st.booleans())
    durations = [draw(st.integers(1, 3)) for _ in nodes] if use_dur else None
    tmin = draw(st.sampled_from([0, 0, -2, 3, 2.5]))
    tmax = draw(st.sampled_from(['inf', 'inf', tmin + 1, tmin + 2, tmin + 3]))
    return {'gc': gc, 'I0': I0, 'R0': R0, 'succ': succ, 'durations': durations, 'tmin': tmin, 'tmax': tmax,
            'single': draw(st.booleans())}


def prop_table(case):
    import EoN
    gc = case['gc']
    G = oracles.build_graph(gc)
    nodes, adj = oracles.adjacency(gc)
    pairs = [(u, v) for u in nodes for v in adj[u]]
    success = dict(zip(pairs, case['succ']))
    I0 = [oracles.tolabel(u) for u in case['I0']]
    R0 = [oracles.tolabel(u) for u in case['R0']]
    tmin = case['tmin']
    tmax = INF if case['tmax'] == 'inf' else case['tmax']
    durations = dict(zip(nodes, case['durations'])) if case['durations'] else None
    T, S, I, R, hist, contacts = reference_discrete_sir(nodes, adj, success, durations, I0, R0, tmin, tmax)
    fails = []
    calls = {}

    budget = CallBudget(4 * (len(pairs) + 1) * (len(nodes) + 2) * 4, 'test_transmission/test_recovery')

    def test_transmission(u, v):
        budget.tick()
        return success[(u, v)]

    def make_recovery():
        cnt = {}

        def test_recovery(u):
            budget.tick()
            cnt[u] = cnt.get(u, 0) + 1
            return cnt[u] >= durations[u]
        return test_recovery

    def kwargs(full):
        single = case.get('single')
        kw = dict(initial_infecteds=(I0[0] if single and len(I0) == 1 else list(I0)), tmin=tmin, tmax=tmax, return_full_data=full)
        if R0:
            kw['initial_recovereds'] = (R0[0] if single and len(R0) == 1 else list(R0))   # a single node is documented for discrete_SIR
        if durations:
            kw['test_recovery'] = make_recovery()
        return kw
    name = 'discrete_SIR'
    try:
        t, s, i, r = EoN.discrete_SIR(G, test_transmission, **kwargs(False))
        got = ([float(x) for x in t], [int(x) for x in s], [int(x) for x in i], [int(x) for x in r])
        want = ([float(x) for x in T], S, I, R)
        if got != want:
            which = [n for n, a, b in zip('tSIR', got, want) if a != b]
            sig = 'arrays:' + ''.join(which)
            if R0 and which and set(which) <= {'S', 'R'}:
                sig += ':with-initial-recovereds'
            fails.append(Failure('%s:%s' % (name, sig),
                                 'arrays t,S,I,R = %r; generation-by-generation reference = %r' % (got, want)))
    except RunawayError as e:
        fails.append(Failure('%s:arrays:non-termination' % name, 'array mode: %s on an %d-node graph (reference ends after %d steps)' % (e, len(nodes), len(T) - 1)))
    except Exception as e:
        fails.append(Failure('%s:arrays:exception:%s' % (name, exc_signature(e)), 'array mode raised %r' % (e,)))
    budget.n = 0
    try:
        full = EoN.discrete_SIR(G, test_transmission, **kwargs(True))
        horizon = tmax
        for u in nodes:
            ts, ss = full.node_history(u)
            g = list(zip([float(x) for x in ts], list(ss)))
            w = [(float(a), b) for a, b in hist[u] if a <= horizon]
            if g != w:
                fails.append(Failure('%s:history' % name, 'node %r history %r, reference %r' % (u, g, w)))
                break
        tr = [x for x in full.transmissions() if x[1] is not None]
        seen = set()
        for (tt, u, v) in tr:
            if (tt, v) not in contacts or u not in contacts[(tt, v)]:
                fails.append(Failure('%s:transmission-invalid' % name,
                                     'recorded transmission %r is not a successful contact onto a node infected at that step; '
                                     'reference contacts %r' % ((tt, u, v), contacts)))
                break
            seen.add((tt, v))
        if not fails and seen != set(contacts):
            fails.append(Failure('%s:transmission-missing' % name,
                                 'infections %r have no recorded transmission' % (sorted(set(contacts) - seen, key=repr),)))
    except RunawayError as e:
        fails.append(Failure('%s:full:non-termination' % name, 'full-data mode: %s on an %d-node graph (reference ends after %d steps)' % (e, len(nodes), len(T) - 1)))
    except Exception as e:
        fails.append(Failure('%s:full:exception:%s' % (name, exc_signature(e)), 'full-data mode raised %r' % (e,)))
    gens = len(T) - 1
    multi = any(len(v) >= 2 for v in contacts.values())
    nt = gens >= 2 and multi
    classes = []
    if R0:
        classes.append('with-R0')
    if durations:
        classes.append('recovery-rule')
    if tmax != INF:
        classes.append('finite-tmax')
    if nt:
        classes.append('nontrivial')
    if case.get('single') and (len(I0) == 1 or len(R0) == 1):
        classes.append('single-node-form')
    return Result(fails, nontrivial=nt, classes=classes)


# ---------------------------------------------------------------------------
# (b) exact whole-run laws
# ---------------------------------------------------------------------------

def _arr_key(out):
    return tuple(tuple(float(x) if k == 0 else int(x) for x in col) for k, col in enumerate(out))


def _traj_counts(traj, tmin, sis):
    T = tuple(float(tmin + k) for k in range(len(traj)))
    S = tuple(s.count('S') for s in traj)
    I = tuple(s.count('I') for s in traj)
    if sis:
        return (T, S, I)
    return (T, S, I, tuple(s.count('R') for s in traj))


def _traj_hist(traj, nodes, tmin, tmax):
    """per-node (times, statuses) as the full-data object would report them (changes at times <= tmax)"""
    out = []
    for j, u in enumerate(nodes):
        ts, ss = [float(tmin)], [traj[0][j]]
        for k in range(1, len(traj)):
            if traj[k][j] != ss[-1] and tmin + k <= tmax:
                ts.append(float(tmin + k)); ss.append(traj[k][j])
            elif traj[k][j] == 'I' and traj[k - 1][j] == 'I' and tmin + k <= tmax:
                pass
        out.append((tuple(ts), tuple(ss)))
    return tuple(out)


def law_case_check(case):
    """case: sim, gc, p, I0, R0, tmin, tmax"""
    import EoN
    sim = case['sim']
    gc = case['gc']
    G = oracles.build_graph(gc)
    nodes, adj = oracles.adjacency(gc)
    I0 = [oracles.tolabel(u) for u in case['I0']]
    R0 = [oracles.tolabel(u) for u in case.get('R0') or []]
    p = case['p']
    tmin = case['tmin']
    tmax = INF if case['tmax'] == 'inf' else case['tmax']
    sis = sim == 'basic_discrete_SIS'
    init = {u: 'S' for u in nodes}
    for u in I0:
        init[u] = 'I'
    for u in R0:
        init[u] = 'R'
    oracle_traj = oracles.reed_frost_run_law(init, adj, p, tmin, tmax, sis=sis)
    fails = []

    def call(full):
        f = getattr(EoN, sim)
        kw = dict(initial_infecteds=list(I0), tmin=tmin, tmax=tmax, return_full_data=full)
        if R0:
            kw['initial_recovereds'] = list(R0)
        args = [G, p]
        if (len(gc['edges']) + len(I0)) % 2 == 1:
            from .. import simrun
            args, kw = simrun.positional(sim, args, kw)          # every argument by position, in the documented order
        return f(*args, **kw)

    for full in (False, True):
        mode = 'full' if full else 'arrays'
        npairs = sum(len(adj[u]) for u in nodes)
        steps = (len(nodes) + 1) if not sis else int(tmax - tmin) + 1
        leaves = forkrng.enumerate_paths(lambda rng: call(full), max_leaves=400000,
                                         max_forks=(2 * npairs + len(nodes) + len(gc['edges'])) * steps + 8)
        if any(lf.kind == 'runaway' for lf in leaves):
            fails.append(Failure('%s:%s:non-termination' % (sim, mode),
                                 '%s mode draws more random numbers on one path than %d steps of a Reed-Frost run can need' % (mode, steps)))
            continue
        err = [lf for lf in leaves if lf.kind == 'error']
        if err:
            fails.append(Failure('%s:%s:exception:%s' % (sim, mode, exc_signature(err[0].out)),
                                 '%s mode raised %r' % (mode, err[0].out)))
            continue
        if full:
            def key(lf):
                if not hasattr(lf.out, 'node_history'):
                    return ('not-a-full-data-object', type(lf.out).__name__)
                return tuple((tuple(float(x) for x in lf.out.node_history(u)[0]), tuple(lf.out.node_history(u)[1])) for u in nodes)
            want = {}
            for traj, pr in oracle_traj.items():
                k = _traj_hist(traj, nodes, tmin, tmax)
                want[k] = want.get(k, 0.0) + pr
        else:
            def key(lf):
                if not isinstance(lf.out, tuple):
                    return ('not-arrays', type(lf.out).__name__)
                return _arr_key(lf.out)
            want = {}
            for traj, pr in oracle_traj.items():
                k = _traj_counts(traj, tmin, sis)
                want[k] = want.get(k, 0.0) + pr
        got, mass = forkrng.law(leaves, key)
        bad = [k for k in set(got) | set(want) if abs(got.get(k, 0.0) - want.get(k, 0.0)) > TOL]
        if bad:
            k = sorted(bad, key=repr)[0]
            if k not in want:
                sig = 'impossible-trajectory'
            elif k not in got:
                sig = 'trajectory-never-happens'
            else:
                sig = 'trajectory-law'
            if R0 and not full and sig != 'trajectory-law':
                pass
            fails.append(Failure('%s:%s:%s' % (sim, mode, sig),
                                 '%s mode: trajectory %r has probability %.12g, Reed-Frost chain gives %.12g (%d of %d trajectories differ)'
                                 % (mode, k, got.get(k, 0.0), want.get(k, 0.0), len(bad), len(set(got) | set(want)))))
    nodes_, _ = nodes, None
    multi = False
    for traj in oracle_traj:
        if len(traj) >= 3:
            multi = True
    # a susceptible with >=2 infectious neighbours at some step
    two = False
    for traj in oracle_traj:
        for s in traj:
            stt = dict(zip(nodes, s))
            for v in nodes:
                if stt[v] == 'S' and sum(1 for u in adj[v] if stt[u] == 'I') >= 2:
                    two = True
    nt = multi and two and 0 < p < 1
    return Result(fails, nontrivial=nt, classes=[sim] + (['with-R0'] if R0 else []) + (['nontrivial'] if nt else []))


def law_cases(nmax, quick):
    for n in range(1, nmax + 1):
        for edges in gen.all_graphs(n):
            gc = {'nodes': list(range(n)), 'edges': edges, 'ew': None, 'nw': None}
            for sim in ('basic_discrete_SIR', 'percolation_based_discrete_SIR', 'basic_discrete_SIS'):
                sis = sim == 'basic_discrete_SIS'
                for assign in gen.all_status_assignments(n, 'SI' if sis else 'SIR'):
                    I0 = [i for i in range(n) if assign[i] == 'I']
                    R0 = [i for i in range(n) if assign[i] == 'R']
                    if quick and n == 3 and len(R0) >= 2:
                        continue
                    for p in ((0.3, 1.0) if quick and n == 3 else (0.0, 0.3, 0.5, 1.0)):
                        for tmin, tmax in (((0, 3),) if sis else ((0, 'inf'), (1, 3))):
                            if quick and not sis and tmax != 'inf' and p != 0.3:
                                continue
                            yield {'sim': sim, 'gc': gc, 'p': p, 'I0': I0, 'R0': R0, 'tmin': tmin, 'tmax': tmax}


@st.composite
def law_case_n4(draw):
    gc = draw(gen.graph_case(4, 4, labels=('int', 'str'), weighted=False))
    sim = draw(st.sampled_from(['basic_discrete_SIR', 'percolation_based_discrete_SIR', 'basic_discrete_SIS']))
    sis = sim == 'basic_discrete_SIS'
    I0, R0 = draw(gen.initial_sets(gc['nodes'], allow_R=not sis, max_I=2))
    tmin = draw(st.sampled_from([0, -1, 2]))
    return {'sim': sim, 'gc': gc, 'p': draw(st.sampled_from([0.3, 0.5, 0.25, 0.9])), 'I0': I0, 'R0': R0,
            'tmin': tmin, 'tmax': tmin + 2 if sis else draw(st.sampled_from(['inf', tmin + 2]))}


# ---------------------------------------------------------------------------
# (c) percolate_network
# ---------------------------------------------------------------------------

def percolate_check(case):
    import EoN
    gc = case['gc']
    G = oracles.build_graph(gc)
    p = case['p']
    edges = [frozenset((oracles.tolabel(e[0]), oracles.tolabel(e[1]))) for e in gc['edges']]
    m = len(edges)
    fails = []
    leaves = forkrng.enumerate_paths(lambda rng: EoN.percolate_network(G, p), max_leaves=100000)
    err = [lf for lf in leaves if lf.kind == 'error']
    if err:
        return Result([Failure('percolate_network:exception:%s' % exc_signature(err[0].out), 'raised %r' % (err[0].out,))])
    for lf in leaves:
        H = lf.out
        if set(H.nodes()) != set(G.nodes()) or H.is_directed():
            fails.append(Failure('percolate_network:node-set', 'percolated graph has nodes %r (directed=%r), G has %r'
                                 % (sorted(H.nodes(), key=repr), H.is_directed(), sorted(G.nodes(), key=repr))))
            return Result(fails)
        if not set(frozenset(e) for e in H.edges()) <= set(edges):
            fails.append(Failure('percolate_network:invents-edge', 'percolated graph has an edge not in G'))
            return Result(fails)
    got, mass = forkrng.law(leaves, lambda lf: frozenset(frozenset(e) for e in lf.out.edges()))
    for k in range(m + 1):
        for sub in itertools.combinations(edges, k):
            want = p ** k * (1 - p) ** (m - k)
            g = got.get(frozenset(sub), 0.0)
            if abs(g - want) > TOL:
                fails.append(Failure('percolate_network:law', 'P(kept edges = %r) = %.12g, independent bonds give %.12g'
                                     % (sorted(map(sorted, sub)), g, want)))
                return Result(fails)
    return Result(fails, nontrivial=m >= 2 and 0 < p < 1, classes=['percolate'])


def percolate_cases():
    for n in (1, 2, 3, 4):
        for edges in gen.all_graphs(n):
            if n == 4 and len(edges) not in (3, 6):
                continue
            for p in (0.0, 0.3, 1.0):
                yield {'gc': {'nodes': ['n%d' % i for i in range(n)], 'edges': [['n%d' % a, 'n%d' % b] for a, b in edges],
                              'ew': None, 'nw': None}, 'p': p}


# ---------------------------------------------------------------------------
# (f) exact law of discrete_SIR with a user recovery rule (nodes infectious for several steps) and the default Bernoulli(p) contacts
# ---------------------------------------------------------------------------

def recovery_law_cases(quick):
    for n in (2, 3):
        for edges in gen.all_graphs(n):
            if not edges:
                continue
            for durs in ([2, 1, 3], [3, 2, 1]):
                for p in ((0.5,) if quick else (0.3, 0.5)):
                    for seed_node in range(n if not quick else 1):
                        yield {'n': n, 'edges': edges, 'durs': durs[:n], 'p': p, 'I0': [seed_node], 'tmin': 0}


def recovery_law_oracle(n, adj, durs, p, I0):
    """law over count trajectories ((S,I,R) per step) of the multi-step Reed-Frost chain: an infectious node exposes each susceptible
    neighbour independently with probability p in EVERY step of its infectious period"""
    start = tuple(('I', durs[u]) if u in I0 else ('S', 0) for u in range(n))

    def counts(st_):
        return (sum(1 for s, _ in st_ if s == 'S'), sum(1 for s, _ in st_ if s == 'I'), sum(1 for s, _ in st_ if s == 'R'))
    paths = {((counts(start),), start): 1.0}
    done = {}
    for _step in range(40):
        nxt = {}
        for (traj, st_), pr in paths.items():
            inf = [u for u in range(n) if st_[u][0] == 'I']
            if not inf:
                done[traj] = done.get(traj, 0.0) + pr
                continue
            sus = [u for u in range(n) if st_[u][0] == 'S']
            probs = [1.0 - (1.0 - p) ** sum(1 for u in inf if v in adj[u]) for v in sus]
            for bits in itertools.product((0, 1), repeat=len(sus)):
                q = 1.0
                for b, pv in zip(bits, probs):
                    q *= pv if b else (1.0 - pv)
                if q <= 0:
                    continue
                new = list(st_)
                for u in inf:
                    k = st_[u][1] - 1
                    new[u] = ('I', k) if k > 0 else ('R', 0)
                for b, v in zip(bits, sus):
                    if b:
                        new[v] = ('I', durs[v])
                new = tuple(new)
                key = (traj + (counts(new),), new)
                nxt[key] = nxt.get(key, 0.0) + pr * q
        paths = nxt
        if not paths:
            break
    return done


def recovery_law_check(case):
    import EoN
    import networkx as nx
    n = case['n']
    G = nx.Graph()
    G.add_nodes_from(range(n))
    G.add_edges_from(case['edges'])
    adj = {u: set(G.neighbors(u)) for u in range(n)}
    want = recovery_law_oracle(n, adj, case['durs'], case['p'], case['I0'])

    def call():
        asked = {}

        def test_recovery(u):
            asked[u] = asked.get(u, 0) + 1
            return asked[u] >= case['durs'][u]
        out = EoN.discrete_SIR(G, args=(case['p'],), test_recovery=test_recovery, initial_infecteds=list(case['I0']), tmin=case['tmin'])
        return tuple(zip(*[[int(x) for x in col] for col in out[1:]]))
    fails = []
    leaves = forkrng.enumerate_paths(lambda rng: call(), max_leaves=400000, max_forks=400)
    bad = [lf for lf in leaves if lf.kind != 'done']
    if bad:
        return Result([Failure('discrete_SIR:recovery-rule-law:%s' % bad[0].kind, 'run did not complete normally: %r' % (bad[0].out,))])
    got, mass = forkrng.law(leaves, lambda lf: lf.out)
    for traj in set(got) | set(want):
        if abs(got.get(traj, 0.0) - want.get(traj, 0.0)) > TOL:
            fails.append(Failure('discrete_SIR:recovery-rule-law', 'infectious periods %r steps, p=%r, edges %r, seed %r: P(count trajectory %r) = %.12g, multi-step Reed-Frost gives %.12g'
                                 % (case['durs'], case['p'], case['edges'], case['I0'], traj, got.get(traj, 0.0), want.get(traj, 0.0))))
            break
    return Result(fails, nontrivial=len(case['edges']) >= 1, classes=['recovery-rule-law'])


# ---------------------------------------------------------------------------
# (d) long deterministic chains with the documented defaults; (e) percolation of large graphs
# ---------------------------------------------------------------------------

@st.composite
def chain_case(draw):
    n = draw(st.integers(102, 230))
    shape = draw(st.sampled_from(['path', 'path', 'cycle', 'path+chords']))
    es = [[i, i + 1] for i in range(n - 1)]
    if shape == 'cycle':
        es.append([n - 1, 0])
    if shape == 'path+chords':
        for _ in range(draw(st.integers(1, 3))):
            a = draw(st.integers(0, n - 3))
            es.append([a, a + 2])
    return {'n': n, 'edges': es, 'shape': shape, 'seed_node': draw(st.sampled_from([0, n - 1, n // 2])),
            'sim': draw(st.sampled_from(['discrete_SIR', 'basic_discrete_SIR', 'percolation_based_discrete_SIR'])),
            'tmin': draw(st.sampled_from([0, 0, 3, -2])), 'full': draw(st.booleans()), 'labels': draw(st.sampled_from(['int', 'str']))}


def prop_chain(case):
    """p = 1: every contact transmits, so node v is infected exactly dist(seed, v) steps after tmin - however long that takes.
    tmax (documented default: no horizon) and, when it is 0, tmin are left to the callee."""
    import EoN
    import networkx as nx
    n = case['n']
    lab = (lambda i: i) if case['labels'] == 'int' else (lambda i: 'v%03d' % i)
    G = nx.Graph()
    G.add_nodes_from(lab(i) for i in range(n))
    G.add_edges_from((lab(a), lab(b)) for a, b in case['edges'])
    dist = nx.single_source_shortest_path_length(G, lab(case['seed_node']))
    D = max(dist.values())
    tmin = case['tmin']
    kw = {'initial_infecteds': [lab(case['seed_node'])], 'return_full_data': case['full']}
    if tmin != 0:
        kw['tmin'] = tmin
    fails = []
    try:
        if case['sim'] == 'discrete_SIR':
            out = EoN.discrete_SIR(G, args=(1,), **kw)
        else:
            out = getattr(EoN, case['sim'])(G, 1, **kw)
        if case['full']:
            t, Dd = out.summary()
            t, S, I, R = [float(x) for x in t], [int(x) for x in Dd['S']], [int(x) for x in Dd['I']], [int(x) for x in Dd['R']]
        else:
            t, S, I, R = ([float(x) for x in out[0]], [int(x) for x in out[1]], [int(x) for x in out[2]], [int(x) for x in out[3]])
        by_d = [sum(1 for v in dist.values() if v == k) for k in range(D + 1)]
        want_t = [float(tmin + k) for k in range(D + 2)]
        want_I = by_d + [0]
        want_R = [sum(by_d[:k]) for k in range(D + 2)]
        want_S = [n - a - b for a, b in zip(want_I, want_R)]
        if (t, S, I, R) != (want_t, want_S, want_I, want_R):
            k = next((i for i in range(min(len(t), len(want_t))) if (t[i], S[i], I[i], R[i]) != (want_t[i], want_S[i], want_I[i], want_R[i])), min(len(t), len(want_t)))
            fails.append(Failure('%s:long-chain' % case['sim'],
                                 '%s on a %s of %d nodes, p=1, seed %r, tmax left at its default: %d rows ending (t,S,I,R)=%r; generations by distance give %d rows ending %r (first difference at row %d)'
                                 % (case['sim'], case['shape'], n, case['seed_node'], len(t), (t[-1], S[-1], I[-1], R[-1]) if t else None, len(want_t),
                                    (want_t[-1], want_S[-1], want_I[-1], want_R[-1]), k)))
    except Exception as e:
        fails.append(Failure('%s:long-chain:exception:%s' % (case['sim'], exc_signature(e)), 'raised %r' % (e,)))
    return Result(fails, nontrivial=D > 100, classes=[case['sim'], 'generations>100' if D > 100 else 'generations<=100'])


def big_percolate_cases(seed, quick):
    import random
    R = random.Random(seed * 7919 + 13)
    for n, q in ((60, 1.0), (150, 1.0), (210, 1.0), (330, 0.5)) + (() if quick else ((330, 1.0), (500, 0.3))):
        for p in (1.0, 0.0, 0.5):
            yield {'n': n, 'q': q, 'gseed': R.randint(0, 10 ** 6), 'p': p, 'seed': R.randint(0, 10 ** 6)}


def prop_big_percolate(case):
    """sizes up to tens of thousands of edges: p=1 keeps G, p=0 keeps nothing, 0<p<1 keeps a subset whose size is within 8 sigma"""
    import EoN
    import random
    import numpy as np
    import networkx as nx
    R = random.Random(case['gseed'])
    n = case['n']
    G = nx.Graph()
    G.add_nodes_from(range(n))
    G.add_edges_from((i, j) for i in range(n) for j in range(i + 1, n) if case['q'] >= 1.0 or R.random() < case['q'])
    m = G.number_of_edges()
    random.seed(case['seed']); np.random.seed(case['seed'] % 2 ** 32)
    fails = []
    try:
        H = EoN.percolate_network(G, case['p'])
        eg = set(frozenset(e) for e in G.edges())
        eh = set(frozenset(e) for e in H.edges())
        k = H.number_of_edges()
        p = case['p']
        sd = (m * p * (1 - p)) ** 0.5
        if set(H.nodes()) != set(G.nodes()) or not eh <= eg or len(eh) != k:
            fails.append(Failure('percolate_network:large:not-a-subgraph', 'n=%d m=%d p=%r: the result is not a spanning subgraph of G' % (n, m, p)))
        elif abs(k - m * p) > 8 * sd + 1e-9:
            fails.append(Failure('percolate_network:large:edge-count', 'n=%d m=%d p=%r: %d edges kept, independent bonds give %.1f +- %.1f' % (n, m, p, k, m * p, sd)))
    except Exception as e:
        fails.append(Failure('percolate_network:large:exception:%s' % exc_signature(e), 'raised %r' % (e,)))
    return Result(fails, nontrivial=True, classes=['edges>=20000' if m >= 20000 else 'edges<20000'])


def replay(ctx, sub, case):
    if sub == 'recovery-law':
        return recovery_law_check(case).failures
    if sub == 'long-chain':
        return prop_chain(case).failures
    if sub == 'percolate-large':
        return prop_big_percolate(case).failures
    if sub == 'table':
        return prop_table(case).failures
    if sub == 'percolate':
        return percolate_check(case).failures
    return law_case_check(case).failures


def _law_worker(case):
    from ..runner import watchdog, CaseTimeout
    try:
        with watchdog(90):
            res = law_case_check(case)
    except CaseTimeout:
        return case, None, 'case did not finish within 90s (inconclusive): %r' % (case,), None
    except HarnessError as e:
        return case, None, str(e), None
    return case, [(f.signature, f.message) for f in res.failures], None, (res.nontrivial, res.classes)


def run(ctx):
    import multiprocessing
    quick = ctx.tier == 'quick'
    ctx.rule = ('(a) Hypothesis: graph n<=8, directed success table, optional per-node recovery durations (test_recovery), I0/R0, '
                'tmin, whole-number tmax: discrete_SIR arrays/histories/transmissions == independent generation loop; '
                '(b) every labelled graph n<=3 x S/I/R assignments x p in {0,.3,.5,1} (quick: reduced at n=3)%s: exact whole-run law of '
                'basic_discrete_SIR / percolation_based_discrete_SIR / basic_discrete_SIS in both return modes == Reed-Frost chain '
                'path probabilities (1e-12); (c) percolate_network edge-subset law. Non-trivial: >=2 generations and a susceptible '
                'with >=2 infectious neighbours (a: two successful infectors of one node).' % ('' if quick else ' + Hypothesis n=4'))
    ctx.assumptions = ['tmax-tmin whole or infinite (behaviour beyond a fractional horizon is not specified)',
                       'table rules are pure functions of their arguments (recovery rule: of the number of calls for that node)']
    only = getattr(ctx, 'only', None)
    if not only or 'table' in only:
        run_hypothesis(ctx, 'table', table_case(), prop_table, 600 if quick else 20000)
    if (not only or 'law' in only) and ctx.shard_id == 0:
        cases = list(law_cases(3, quick))
        mpctx = multiprocessing.get_context('fork')
        found = 0
        with mpctx.Pool(16) as pool:
            for case, fl, herr, info in pool.imap(_law_worker, cases, chunksize=4):
                if herr:
                    ctx.harness_error('law', herr)
                    break
                ctx.record('law', case, info[0], info[1])
                new = ctx.split([Failure(s, m) for s, m in fl])
                if new:
                    ctx.violation('law', case, new[0])
                    found += 1
                    if found >= 4:
                        break
    if (not only or 'law' in only) and not quick:
        run_hypothesis(ctx, 'law-n4', law_case_n4(), law_case_check, 300)
    if not only or 'percolate' in only:
        run_cases(ctx, 'percolate', percolate_cases(), percolate_check)
    if not only or 'recovery-law' in only:
        run_cases(ctx, 'recovery-law', recovery_law_cases(quick), recovery_law_check)
    if not only or 'percolate-large' in only:
        run_cases(ctx, 'percolate-large', big_percolate_cases(ctx.seed, quick), prop_big_percolate)
    if not only or 'long-chain' in only:
        run_hypothesis(ctx, 'long-chain', chain_case(), prop_chain, 40 if quick else 600, rounds=2)
