"""C09 - recorded transmissions are causally valid and complete.

Hypothesis over the eleven single-neighbour simulators with return_full_data=True (graphs n<=25, directed for the
generic simulator, seeded real RNG, table rules for the event-driven non-Markovian ones): every (t,u,v) with a
source goes along an edge from a node with the infectious/inducing status at t to a node that had the from-status
just before and changes at t (t+1 in discrete time); every neighbour-induced change after tmin has exactly one
entry; None sources only for I0; for SIR the transmission tree is a forest rooted in I0.
"""
from hypothesis import strategies as st

from ..runner import Failure, Result, run_hypothesis, exc_signature, CallBudget, RunawayError
from .. import simrun, oracles

ID = 'C09'
LEVEL = 'exploration'
INF = float('inf')


def status_at(hist, t, strict=False):
    """status of the latest change at or before t (strict: strictly before t); None if none"""
    ts, ss = hist
    cur = None
    for a, s in zip(ts, ss):
        if (a < t) if strict else (a <= t):
            cur = s
    return cur


def induced_moves(case):
    """{(from,to): set(inducing statuses)}"""
    k = simrun.KIND[case['sim']]
    if k in ('SIR', 'SIS'):
        return {('S', 'I'): {'I'}}
    _, spont, induced = simrun.SPECS[case['spec']]
    out = {}
    for a, b, c, _, _ in induced:
        out.setdefault((b, c), set()).add(a)
    return out


def check_transmissions(case, out):
    sim = case['sim']
    fails = []
    disc = sim in simrun.DISCRETE
    tmin = case['tmin']
    # scripted ties, or a float clock at |t| >= 1e8 that can put a recovery and a transmission on one instant: no tie convention is asserted
    table = (case.get('rule') or {}).get('kind') == 'table' or abs(tmin) >= 1e8
    nodes, adj = oracles.adjacency(case['gc'])
    try:
        trans = list(out.transmissions())
    except Exception as e:
        return [Failure('%s:transmissions-unavailable' % sim, 'transmissions() raised %r' % (e,))], 0
    hist = {u: (list(out.node_history(u)[0]), list(out.node_history(u)[1])) for u in nodes}
    I0 = set(oracles.tolabel(u) for u in case['I0']) if simrun.KIND[sim] != 'generic' else set()
    moves = induced_moves(case)
    ts = [x[0] for x in trans]
    if any(b < a for a, b in zip(ts, ts[1:])):
        fails.append(Failure('%s:not-time-ordered' % sim, 'transmission times not ordered: %r' % (ts[:10],)))
    seen = {}
    sourced = 0
    for (t, u, v) in trans:
        if u is None:
            if v not in I0:
                fails.append(Failure('%s:sourceless-entry' % sim, 'entry %r without source for a node that is not initially infected' % ((t, u, v),)))
            continue
        sourced += 1
        if v not in adj.get(u, []):
            rev = u in adj.get(v, [])
            fails.append(Failure('%s:not-an-edge%s' % (sim, ':reversed' if rev else ''), 'entry %r does not go along an edge of the network%s'
                                 % ((t, u, v), ' (the reverse direction is an edge)' if rev else '')))
            continue
        tv = t + 1 if disc else t
        # recipient: a change at tv from a status with an induced move
        hts, hss = hist[v]
        idx = [i for i, a in enumerate(hts) if a == tv and i > 0]
        ok = False
        for i in idx:
            mv = (hss[i - 1], hss[i])
            if mv in moves:
                su = status_at(hist[u], t)
                su_b = status_at(hist[u], t, strict=True)
                if su in moves[mv] or (table and su_b in moves[mv]):
                    ok = True
                    seen[(tv, v)] = seen.get((tv, v), 0) + 1
                else:
                    fails.append(Failure('%s:source-not-infectious' % sim,
                                         'entry %r: source has status %r at that time (history %r), needs one of %r to induce %r'
                                         % ((t, u, v), su, hist[u], sorted(moves[mv]), mv)))
                    ok = True
                break
        if not ok and not idx:
            fails.append(Failure('%s:entry-without-change' % sim, 'entry %r but node %r has no status change at time %r (history %r)'
                                 % ((t, u, v), v, tv, hist[v])))
        elif not ok:
            fails.append(Failure('%s:entry-wrong-move' % sim, 'entry %r but the change of %r at %r is %r, not a neighbour-induced move'
                                 % ((t, u, v), v, tv, [(hss[i - 1], hss[i]) for i in idx])))
    # completeness
    for v in nodes:
        hts, hss = hist[v]
        for i in range(1, len(hts)):
            mv = (hss[i - 1], hss[i])
            if mv in moves and hts[i] > tmin:
                n = seen.get((hts[i], v), 0)
                if n != 1:
                    fails.append(Failure('%s:%s' % (sim, 'infection-without-entry' if n == 0 else 'duplicate-entries'),
                                         'node %r makes the induced move %r at %r but has %d sourced transmission entries' % (v, mv, hts[i], n)))
                    break
    if simrun.KIND[sim] == 'SIR':
        try:
            T = out.transmission_tree()
            indeg = {}
            for a, b in T.edges():
                indeg[b] = indeg.get(b, 0) + 1
            if any(d > 1 for d in indeg.values()):
                fails.append(Failure('%s:tree-indegree' % sim, 'a node has %d infectors in the transmission tree' % max(indeg.values())))
            roots = [x for x in T.nodes() if indeg.get(x, 0) == 0]
            if any(r not in I0 for r in roots):
                fails.append(Failure('%s:tree-root-not-initial' % sim, 'transmission tree root(s) %r are not initially infected %r'
                                     % ([r for r in roots if r not in I0][:4], sorted(I0, key=repr)[:6])))
            # acyclic: follow parents
            parent = {b: a for a, b in T.edges()}
            for x in list(parent):
                seen_ = set()
                y = x
                while y in parent and y not in seen_:
                    seen_.add(y)
                    y = parent[y]
                if y in seen_ and y in parent:
                    fails.append(Failure('%s:tree-cycle' % sim, 'transmission tree has a cycle through %r' % (y,)))
                    break
        except Exception as e:
            fails.append(Failure('%s:transmission_tree:exception:%s' % (sim, exc_signature(e)), 'transmission_tree() raised %r' % (e,)))
    # de-duplicate by signature
    uniq = {}
    for f in fails:
        uniq.setdefault(f.signature, f)
    return list(uniq.values()), sourced


def prop_case(case):
    sim = case['sim']
    budget = CallBudget(200000, 'user rule')
    try:
        out = simrun.call(case, True, budget=budget)
    except RunawayError as e:
        return Result([Failure('%s:non-termination' % sim, str(e))])
    except Exception as e:
        return Result([Failure('%s:exception:%s' % (sim, exc_signature(e)), 'full-data call raised %r' % (e,))])
    fails, sourced = check_transmissions(case, out)
    classes = [sim]
    nt = sourced >= 3
    if simrun.KIND[sim] == 'SIS' or (sim == 'Gillespie_simple_contagion' and case.get('spec') in (0, 2, 6)):
        nodes = [oracles.tolabel(u) for u in case['gc']['nodes']]
        twice = any(list(out.node_history(u)[1]).count('I') >= 2 for u in nodes)
        if twice:
            classes.append('reinfection')
        nt = nt and twice
    if case['gc'].get('directed'):
        classes.append('directed')
    return Result(fails, nontrivial=nt, classes=classes + (['>=3-sourced'] if sourced >= 3 else []))


@st.composite
def c09_case(draw, sim=None):
    case = draw(simrun.sim_case(sims=([sim] if sim else simrun.SINGLE_NEIGHBOUR), nmax=25))
    if (case.get('rule') or {}).get('kind') == 'table' and case['sim'] == 'fast_nonMarkov_SIR':
        case['rule']['dur'] = [0.5 if d == 0 else d for d in case['rule']['dur']]
        case['rule']['delay'] = [0.5 if d == 0 else d for d in case['rule']['delay']]
    if case['sim'] in simrun.DISCRETE and case['tmax'] != 'inf':
        import math
        case['tmax'] = case['tmin'] + max(1, math.floor(case['tmax'] - case['tmin']))   # whole number of steps (fractional: unspecified)
    # make activity likely
    if case['tau'] < 0.5:
        case['tau'] = draw(st.sampled_from([1.0, 2.0, 3.0]))
    if case['p'] < 0.3:
        case['p'] = draw(st.sampled_from([0.5, 0.8, 1.0]))
    return case


def replay(ctx, sub, case):
    return prop_case(case).failures


def run(ctx):
    quick = ctx.tier == 'quick'
    ctx.rule = ('Hypothesis: single-neighbour simulator (11) x graph n<=25 (directed for Gillespie_simple_contagion) x rates x weights x '
                'I0/R0 x tmin/tmax x seed (table rules with positive delays for the non-Markovian ones), full data. Non-trivial: >=3 '
                'sourced entries (SIS-like models: additionally a node infected twice); distinct by case digest.')
    ctx.assumptions = ['discrete-time simulators: tmax-tmin whole or infinite', 'real RNG: simultaneous events have probability 0; for table rules a source counts as infectious at t if it is '
                       'infectious at or immediately before t', 'induced moves of the generic simulator are read from the specification']
    for sim in simrun.SINGLE_NEIGHBOUR:
        run_hypothesis(ctx, 'transmissions', c09_case(sim), prop_case, (220 if sim == 'Gillespie_simple_contagion' else 130) if quick else 5000, rounds=3)
        run_hypothesis(ctx, 'large', simrun.large_case(sim), prop_case, 20 if quick else 300, rounds=2, case_timeout=300)
