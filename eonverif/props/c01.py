"""C01 - Gillespie_SIR and fast_SIR sample the exact network SIR chain.

(a) exhaustive: every labelled graph on n<=3 (quick) / n<=4 (thorough) x every initial S/I/R assignment with an
    infected node x weight modes x rate pairs: the complete history tree of Gillespie_SIR is walked and at every
    node the exact step law, clock rate and event time are compared with the chain.
(b) Hypothesis: graphs n<=6 with labels/weights/initial sets/tmax and a generated walk through the history tree.
(c) Monte-Carlo: per-node state vector at two read-out times and at the end of fast_SIR / Gillespie_SIR vs the
    master equation (chi-square, two-stage rule).
"""
import itertools
import multiprocessing
from hypothesis import strategies as st

from ..runner import Failure, Result, HarnessError, run_hypothesis, digest, exc_signature
import numpy as np
import networkx as nx
from .. import forkrng, oracles, steplaw, gen, mc

ID = 'C01'
LEVEL = 'exploration'
INF = float('inf')


class SIRModel(object):
    has_source = True
    sis = False
    simname = 'Gillespie_SIR'

    def __init__(self, case):
        self.case = case
        gc = case['gc']
        self.gc = gc
        self.nodes, self.adj = oracles.adjacency(gc)
        self.tau, self.gamma = case['tau'], case['gamma']
        self.ewl, self.nwl = case.get('ew'), case.get('nw')
        self.ew = oracles.edge_weight_fn(gc, self.ewl)
        self.nw = oracles.node_weight_fn(gc, self.nwl)
        self.tmin = case.get('tmin', 0)
        self.tmax = case.get('tmax', INF)
        if self.tmax == 'inf':
            self.tmax = INF
        self.I0 = [oracles.tolabel(u) for u in case['I0']]
        self.R0 = [oracles.tolabel(u) for u in case.get('R0') or []]
        self.init = {u: 'S' for u in self.nodes}
        for u in self.I0:
            self.init[u] = 'I'
        for u in self.R0:
            self.init[u] = 'R'
        self.G = oracles.build_graph(gc)

    def kwargs(self, full):
        kw = dict(initial_infecteds=list(self.I0), tmin=self.tmin, tmax=self.tmax, return_full_data=full)
        if self.R0:
            kw['initial_recovereds'] = list(self.R0)
        if self.ewl is not None:
            kw['transmission_weight'] = self.ewl
        if self.nwl is not None:
            kw['recovery_weight'] = self.nwl
        return kw

    def run(self, rng, full):
        import EoN
        from .. import simrun
        args, kw = [self.G, self.tau, self.gamma], self.kwargs(full)
        if (len(self.case['gc']['edges']) + len(self.I0)) % 2 == 1:
            args, kw = simrun.positional(self.simname, args, kw)        # every argument by position, in the documented order
        return getattr(EoN, self.simname)(*args, **kw)

    def events(self, out):
        ev = []
        src = {}
        try:
            for (t, u, v) in out.transmissions():
                if u is not None:
                    src[(t, v)] = u
        except Exception:
            if self.has_source:
                raise
        for u in self.nodes:
            ts, ss = out.node_history(u)
            for t, s in list(zip(ts, ss))[1:]:
                ev.append((t, u, s, src.get((t, u)) if s == 'I' else None))
        ev.sort(key=lambda e: e[0])
        return ev

    def rows(self, out):
        ts = list(out[0])
        rows = list(zip(*[[int(x) for x in col] for col in out[1:]]))
        return ts, rows

    def counts(self, state):
        vals = list(state.values())
        if self.sis:
            return (vals.count('S'), vals.count('I'))
        return (vals.count('S'), vals.count('I'), vals.count('R'))

    def oracle(self, state):
        return oracles.sir_events(state, self.adj, self.tau, self.gamma, self.ew, self.nw, sis=self.sis)

    def apply(self, state, key):
        return oracles.apply_event(state, key)


def nontrivial_history(model, hist):
    """>= 2 events and at some point an infected node has both an S and a non-S neighbour"""
    if len(hist) < 2:
        return False
    st_ = dict(model.init)
    states = [st_]
    for e in hist:
        st_ = oracles.apply_event(st_, e)
        states.append(st_)
    for s in states:
        for u, x in s.items():
            if x == 'I':
                nb = [s[v] for v in model.adj[u]]
                if 'S' in nb and any(y != 'S' for y in nb):
                    return True
    return False


def prop_tree(case, model_cls=SIRModel, name='Gillespie_SIR', walk=None, max_depth=14, max_levels=4000):
    model = model_cls(case)
    flags = {'nt': False, 'deep': 0}

    def observe(hist, state, stats):
        if nontrivial_history(model, hist):
            flags['nt'] = True
        flags['deep'] = max(flags['deep'], len(hist))
    fails, stats = steplaw.explore(model, name, walk=walk, max_depth=max_depth, max_levels=max_levels, observe=observe)
    classes = []
    if case.get('ew') is not None:
        classes.append('edge-weighted')
    if case.get('nw') is not None:
        classes.append('node-weighted')
    if case.get('R0'):
        classes.append('with-R0')
    if case['tau'] == 0 or case['gamma'] == 0:
        classes.append('zero-rate')
    if case.get('tmax', INF) not in (INF, 'inf'):
        classes.append('finite-tmax')
    if case['gc'].get('zero_weights') and case.get('ew') is not None:
        classes.append('zero-weight-edges')
    if case['gc'].get('selfloops'):
        classes.append('self-loops')
    if case['gc'].get('zero_node_weights') and case.get('nw') is not None:
        classes.append('zero-weight-nodes')
    if 0 < max(case['tau'], case['gamma']) < 1e-6:
        classes.append('tiny-rates')
    res = Result(fails, nontrivial=flags['nt'], classes=classes)
    res.stats = stats
    return res


def tree_prop(case):
    return prop_tree(case)


def tree_prop_weighted(case):
    return prop_tree(case, SIRModel, 'weighted-Gillespie_SIR')


# ---------------------------------------------------------------------------
# (a) exhaustive configurations
# ---------------------------------------------------------------------------

RATES = [(1.0, 1.0), (0.5, 2.0), (0.0, 1.0), (1.5, 0.0)]


def exhaustive_cases(nmax, sis=False, rates=RATES):
    for n in range(1, nmax + 1):
        for edges in gen.all_graphs(n):
            for assign in gen.all_status_assignments(n, 'SI' if sis else 'SIR'):
                I0 = [i for i in range(n) if assign[i] == 'I']
                R0 = [i for i in range(n) if assign[i] == 'R']
                modes = [(None, None)]
                if edges:
                    modes += [('weight', None), ('w', 'rw')]
                else:
                    modes += [(None, 'rw')]
                for (ewl, nwl) in modes:
                    for (tau, gamma) in rates:
                        gc = {'nodes': list(range(n)), 'edges': edges,
                              'ew': {ewl: gen.det_weights(len(edges), n)} if ewl else None,
                              'nw': {nwl: gen.det_weights(n, 1)} if nwl else None}
                        yield {'gc': gc, 'tau': tau, 'gamma': gamma, 'ew': ewl, 'nw': nwl, 'I0': I0, 'R0': R0,
                               'tmin': 0, 'tmax': 'inf' if not sis else 2.0}


def _tree_worker(args):
    modname, funcname, case = args
    import importlib
    mod = importlib.import_module(modname)
    from ..runner import watchdog, CaseTimeout
    try:
        with watchdog(120):
            res = getattr(mod, funcname)(case)
    except CaseTimeout:
        return case, None, 'case did not finish within 120s (inconclusive)', None
    except HarnessError as e:
        return case, None, str(e), None
    except Exception as e:
        import traceback
        return case, None, 'harness exception %s: %s %s' % (type(e).__name__, e, traceback.format_exc()[-800:]), None
    return case, [(f.signature, f.message) for f in res.failures], None, \
        (res.nontrivial, res.classes, res.stats.levels, res.stats.histories, res.stats.sim_calls, res.stats.max_err)


def run_exhaustive(ctx, sub, cases, modname, funcname, nproc=16):
    if ctx.shard_id != 0:
        return {}
    cases = list(cases)
    mpctx = multiprocessing.get_context('fork')
    tot = {'levels': 0, 'histories': 0, 'sim_calls': 0, 'max_err': 0.0}
    with mpctx.Pool(nproc) as pool:
        for case, fl, herr, info in pool.imap(_tree_worker, [(modname, funcname, c) for c in cases], chunksize=(8 if len(cases) >= 256 else 1)):
            if herr:
                ctx.harness_error(sub, herr + ' on %r' % (case,))
                break
            nt, classes, levels, hists, calls, maxerr = info
            ctx.record(sub, case, nt, classes)
            tot['levels'] += levels; tot['histories'] += hists; tot['sim_calls'] += calls
            tot['max_err'] = max(tot['max_err'], maxerr)
            new = ctx.split([Failure(s, m) for s, m in fl])
            if new:
                ctx.violation(sub, case, new[0])
                if len(ctx.violations) >= 3:
                    break
    ctx.extra.setdefault('tree_totals', {})[sub] = tot
    return tot


# ---------------------------------------------------------------------------
# (b) Hypothesis walks
# ---------------------------------------------------------------------------

@st.composite
def walk_case(draw, sis=False, nmax=6):
    gc = draw(gen.graph_case(1, nmax, labels=('int', 'perm', 'str', 'tuple'), selfloops=True))
    if gc['ew'] and draw(st.integers(0, 3)) == 0:
        lab = list(gc['ew'])[0]
        gc['ew'][lab] = [0.0 if draw(st.integers(0, 2)) == 0 else w for w in gc['ew'][lab]]     # zero-weight candidates
        gc['zero_weights'] = True
    if gc['nw'] and draw(st.integers(0, 3)) == 0:
        lab = list(gc['nw'])[0]
        gc['nw'][lab] = [0.0 if draw(st.integers(0, 2)) == 0 else w for w in gc['nw'][lab]]     # nodes that never recover
        gc['zero_node_weights'] = True
    I0, R0 = draw(gen.initial_sets(gc['nodes'], allow_R=not sis))
    tau = draw(gen.rates)
    gamma = draw(gen.rates)
    if draw(st.integers(0, 7)) == 0:
        # rates of order 1e-10 .. 1e-9: the jump chain depends on tau/gamma only; absolute tolerances must not swallow them
        tau, gamma = tau * 2.0 ** -31, gamma * 2.0 ** -31
    tmin = draw(st.sampled_from([0, 0, -1.5, 2, 2.5]))
    tmax = draw(st.sampled_from(['inf', 'inf', tmin + 1, tmin + 2.25, tmin + 4])) if not sis else \
        draw(st.sampled_from([tmin + 1, tmin + 2.25, tmin + 4, tmin + 100]))
    ewl = list(gc['ew'])[0] if gc['ew'] and draw(st.booleans()) else None
    nwl = list(gc['nw'])[0] if gc['nw'] and draw(st.booleans()) else None
    walk = draw(st.lists(st.integers(0, 7), min_size=0, max_size=14))
    return {'gc': gc, 'tau': tau, 'gamma': gamma, 'ew': ewl, 'nw': nwl, 'I0': I0, 'R0': R0,
            'tmin': tmin, 'tmax': tmax, 'walk': walk}


def prop_walk(case):
    return prop_tree(case, SIRModel, 'Gillespie_SIR', walk=case['walk'], max_depth=14)


# ---------------------------------------------------------------------------
# (c) Monte-Carlo configurations
# ---------------------------------------------------------------------------

def falsy_labels(c, k):
    """every other weighted Monte-Carlo configuration stores its weights under the attribute name '' (legal, but falsy)"""
    gc = dict(c['gc'])
    if k % 2 == 0 and c.get('ew') is not None:
        gc['ew'] = {'': list(gc['ew'].values())[0]}
        c['ew'] = ''
    elif c.get('nw') is not None:
        gc['nw'] = {'': list(gc['nw'].values())[0]}
        c['nw'] = ''
    c['gc'] = gc
    return c


def _g(n, edges, ew=None, nw=None):
    return {'nodes': list(range(n)), 'edges': [list(e) for e in edges],
            'ew': {'w': ew} if ew else None, 'nw': {'rw': nw} if nw else None}


STAR3 = [(0, 1), (0, 2)]
STAR4 = [(0, 1), (0, 2), (0, 3)]
TRI = [(0, 1), (1, 2), (0, 2)]
PATH4 = [(0, 1), (1, 2), (2, 3)]
PAW = [(0, 1), (1, 2), (0, 2), (2, 3)]
K4 = [(0, 1), (0, 2), (0, 3), (1, 2), (1, 3), (2, 3)]
STARCHORD = [(0, 1), (0, 2), (0, 3), (1, 2)]


def mc_configs(sims, thorough=False):
    base = [
        dict(gc=_g(4, STARCHORD), tau=1.0, gamma=1.0, I0=[0], R0=[]),
        dict(gc=_g(4, K4), tau=0.7, gamma=1.0, I0=[1], R0=[]),
        dict(gc=_g(4, PAW, ew=[2.0, 0.5, 1.0, 3.0], nw=[0.5, 2.0, 1.0, 1.0]), tau=1.0, gamma=1.0, I0=[2], R0=[], ew='w', nw='rw'),
        dict(gc=_g(4, PATH4), tau=2.0, gamma=1.0, I0=[1], R0=[3]),
        dict(gc=_g(4, STAR4, nw=[2.0, 0.5, 1.0, 3.0]), tau=1.0, gamma=0.8, I0=[0, 3], R0=[], nw='rw'),
        dict(gc=_g(3, TRI), tau=1.0, gamma=0.0, I0=[0], R0=[], tmax=1.5),
        dict(gc=_g(4, STARCHORD, ew=[1.0, 2.0, 0.5, 3.0], nw=[2.0, 1.0, 0.5, 1.0]), tau=1.2, gamma=1.0, I0=[1], R0=[3], ew='w', nw='rw'),
        dict(gc=_g(4, PAW, ew=[0.5, 2.0, 1.0, 3.0]), tau=1.5, gamma=1.0, I0=[0, 3], R0=[], ew='w', tmax=1.5),
    ]
    if thorough:
        base += [
            dict(gc=_g(4, K4, ew=[2.0, 0.5, 1.0, 3.0, 0.25, 1.5]), tau=0.6, gamma=1.0, I0=[0], R0=[], ew='w'),
            dict(gc=_g(4, PAW), tau=3.0, gamma=1.0, I0=[3], R0=[0]),
            dict(gc=_g(3, STAR3), tau=0.3, gamma=1.0, I0=[1], R0=[]),
            dict(gc=_g(4, STARCHORD, ew=[1.0, 2.0, 0.5, 3.0]), tau=1.0, gamma=2.0, I0=[3], R0=[], ew='w'),
            dict(gc=_g(4, TRI + [(2, 3)]), tau=1.5, gamma=0.5, I0=[0, 1], R0=[]),
            dict(gc=_g(4, PATH4, nw=[1.0, 3.0, 0.5, 2.0]), tau=1.0, gamma=1.0, I0=[0], R0=[], nw='rw'),
        ]
    out = []
    for sim in sims:
        for b in base:
            c = falsy_labels(dict(b), len(out))
            c['positional'] = len(out) % 3 == 1
            c['sim'] = sim
            c['tmin'] = [0, -5.0, 3.5][len(out) % 3]
            g = c['gamma'] if c['gamma'] > 0 else 1.0
            if 'tmax' in c:
                c['tmax'] = c['tmin'] + c['tmax']
                c['times'] = [c['tmin'] + 0.4 / g, c['tmin'] + 1.2 / g]
            else:
                c['times'] = [c['tmin'] + 0.4 / g, c['tmin'] + 1.2 / g, 'final']
                c['tmax'] = float('inf')
            out.append(c)
    return out


# ---------------------------------------------------------------------------
# behavioural half of C16
# ---------------------------------------------------------------------------

def behavioural_weighted(ctx, sub, quick):
    """weighted Gillespie_SIR trees with many distinct weights: the heaviest candidate changes along the history"""
    cases = []
    for n, edges in ((4, K4), (4, PAW), (4, STARCHORD)):
        for shift in range(2 if quick else 6):
            gc = {'nodes': list(range(n)), 'edges': [list(e) for e in edges],
                  'ew': {'w': gen.det_weights(len(edges), shift)}, 'nw': {'rw': gen.det_weights(n, shift + 2)}}
            cases.append({'gc': gc, 'tau': 1.0, 'gamma': 0.7, 'ew': 'w', 'nw': 'rw', 'I0': [shift % n], 'R0': [],
                          'tmin': 0, 'tmax': 'inf'})
        for z in range(n if not quick else 2):       # zero weights: a node that never recovers, an edge that never transmits
            nw = gen.det_weights(n, 1)
            nw[(z + 1) % n] = 0.0
            ew = gen.det_weights(len(edges), 3)
            ew[z % len(edges)] = 0.0
            gc = {'nodes': list(range(n)), 'edges': [list(e) for e in edges], 'ew': {'': ew}, 'nw': {'rw': nw}}
            cases.append({'gc': gc, 'tau': 1.0, 'gamma': 0.7, 'ew': '', 'nw': 'rw', 'I0': [z], 'R0': [], 'tmin': 0, 'tmax': 'inf'})
    run_exhaustive(ctx, sub, cases, 'eonverif.props.c01', 'tree_prop_weighted')


def skew_cases(seed, quick):
    for k, L in enumerate((3000, 30000, 100000) if quick else (3000, 30000, 100000, 300000)):
        for rep in range(2):
            yield {'leaves': L, 'seed': seed * 31 + 7 * k + rep, 'sim': 'Gillespie_SIR'}
            yield {'leaves': L, 'seed': seed * 37 + 7 * k + rep, 'sim': 'Gillespie_SIS'}


def prop_skew(case):
    """a hub with L susceptible leaves, one edge of weight 1e6 and L-1 of weight 1e-9: the first transmission goes along the heavy edge
    with probability > 1 - L*1e-15; thousands of consecutive rejections are the normal case here (iteration caps, fallbacks)"""
    import random
    import EoN
    L = case['leaves']
    G = nx.star_graph(L)
    R = random.Random(case['seed'])
    heavy = 1 + R.randrange(L)
    for u, v, d in G.edges(data=True):
        d['w'] = 1.0e6 if heavy in (u, v) else 1.0e-9
    random.seed(case['seed']); np.random.seed(case['seed'] % 2 ** 32)
    fails = []
    try:
        kw = dict(initial_infecteds=[0], transmission_weight='w', tmax=1e-3, return_full_data=True)
        out = getattr(EoN, case['sim'])(G, 1.0, 0.0, **kw)
        changed = sorted((out.node_history(u)[0][1], u) for u in G if u != 0 and len(out.node_history(u)[0]) > 1)
        if not changed or changed[0][1] != heavy:
            fails.append(Failure('%s:skewed-weights:wrong-first-transmission' % case['sim'],
                                 'star with %d leaves, edge to leaf %d has weight 1e6, the others 1e-9: first infected leaves %r' % (L, heavy, [u for _t, u in changed[:3]])))
    except Exception as e:
        fails.append(Failure('%s:skewed-weights:exception:%s' % (case['sim'], exc_signature(e)), 'raised %r' % (e,)))
    return Result(fails, nontrivial=True, classes=['skew:%d' % L])


def replay(ctx, sub, case):
    if sub == 'skew':
        return prop_skew(case).failures
    if sub.startswith('mc'):
        return mc.replay_mc(ctx, case, 64000)
    if sub == 'tree-weighted':
        return tree_prop_weighted(case).failures
    if 'walk' in case and sub.startswith('walk'):
        return prop_walk(case).failures
    return prop_tree(case, SIRModel, 'Gillespie_SIR' if not sub.startswith('behav') else 'weighted-Gillespie_SIR').failures


def run(ctx):
    quick = ctx.tier == 'quick'
    ctx.rule = ('(a) exhaustive: every labelled graph n<=%d x every S/I/R assignment with an infected node x weight modes x 4 '
                'rate pairs, complete Gillespie_SIR history tree, exact step law/clock/time at every node (forking RNG vs CTMC '
                'rate shares, tol 1e-9), full-data and array mode; (b) Hypothesis-generated graphs n<=6 (labels, weights, R0, '
                'tmin/tmax) with a generated walk; (c) Monte-Carlo node-state law at 2 times + final for fast_SIR and '
                'Gillespie_SIR vs the master equation. Non-trivial: a history with >=2 events in which an infected node has '
                'both an S and a non-S neighbour (MC: >=6 chi-square cells with expected >=5); distinct by case digest.'
                % (3 if quick else 4))
    ctx.assumptions = ['randomness is drawn through EoN.simulation.random / np.random (also asserted by C18)',
                       'rates and weights within 1e-2..1e2', 'fast_SIR law is decided statistically (false-alarm bound 1e-9 per configuration)']
    only = getattr(ctx, 'only', None)
    if not only or 'tree' in only:
        tot = run_exhaustive(ctx, 'tree', exhaustive_cases(3 if quick else 4), 'eonverif.props.c01', 'tree_prop')
        ctx.exhaustive = False
    if not only or 'tree-weighted' in only:
        behavioural_weighted(ctx, 'tree-weighted', quick)        # many distinct weights, zero-weight nodes and edges
    if not only or 'skew' in only:
        from ..runner import run_cases
        run_cases(ctx, 'skew', [c for c in skew_cases(ctx.seed, quick) if c['sim'] == 'Gillespie_SIR'], prop_skew, case_timeout=600)
    if not only or 'walk' in only:
        run_hypothesis(ctx, 'walk', walk_case(), prop_walk, 800 if quick else 5000)
    if not only or 'mc' in only:
        mc.run_mc(ctx, 'mc', mc_configs(['fast_SIR', 'Gillespie_SIR'], thorough=not quick), 64000 if quick else 1000000)
