"""C11 - event-driven SIR with arbitrary delays equals first-passage percolation.

Hypothesis: graph n<=7, per-ordered-pair delay and per-node duration from a dyadic grid with 0 and inf (ties, zeros,
infinities frequent), I0/R0, tmin, tmax on/off the grid, two-function and joint-function API, both return modes.
Oracle: own Dijkstra on the digraph keeping u->v iff delay<=duration(u), R0 removed (same left-to-right additions,
so equality is exact).  Also: the percolation builders return exactly that digraph (nodes, edges, attributes),
get_infected_nodes == out-component after removing R0 (builder spied at the public function boundary), and
directed_percolate_network edge marginals / same-source pair correlation by exact binomial tests.
"""
import random
import math
from hypothesis import strategies as st

from ..runner import Failure, Result, run_hypothesis, exc_signature, CallBudget, RunawayError
from .. import oracles, gen

ID = 'C11'
LEVEL = 'exploration'
INF = float('inf')
GRID = [0, 0.5, 1, 1.5, 2, 3, 'inf', 0.5, 1, 1]
FINE = [k / 8.0 for k in range(0, 33)]


def _v(x):
    return INF if x == 'inf' else x


@st.composite
def fpp_case(draw):
    gc = draw(gen.graph_case(1, 7, labels=('int', 'perm', 'str', 'tuple'), weighted=False))
    nodes, adj = oracles.adjacency(gc)
    pairs = [(u, v) for u in nodes for v in adj[u]]
    pool = GRID if draw(st.booleans()) else FINE
    I0, R0 = draw(gen.initial_sets(gc['nodes']))
    tmin = draw(st.sampled_from([0, 0, -1.5, 2]))
    tmax = draw(st.sampled_from(['inf', 'inf', tmin + 1, tmin + 2.5, tmin + 4, tmin + 2]))
    return {'gc': gc, 'dur': [draw(st.sampled_from(pool)) for _ in nodes],
            'delay': [draw(st.sampled_from(pool)) for _ in pairs],
            'I0': I0, 'R0': R0, 'tmin': tmin, 'tmax': tmax,
            'api': draw(st.sampled_from(['two', 'two', 'joint-all', 'joint-filtered'])), 'np_values': draw(st.integers(0, 3)) == 0,
            # time scales handed to the rules through trans_time_args / rec_time_args / trans_and_rec_time_args
            'args': draw(st.sampled_from([[1, 1], [1, 1], [2.0, 1.0], [0.5, 1.0], [1.0, 2.0], [0.5, 2.0], [2.0, 0.5]]))}


def tables(case, raw=False):
    """raw: the numbers stored in the user's rules; otherwise what the rules return once given their extra arguments"""
    nodes, adj = oracles.adjacency(case['gc'])
    pairs = [(u, v) for u in nodes for v in adj[u]]
    a_tr, a_rec = (1, 1) if raw else (case.get('args') or (1, 1))
    dur = {u: _v(d) * a_rec for u, d in zip(nodes, case['dur'])}
    delay = {p: _v(d) * a_tr for p, d in zip(pairs, case['delay'])}
    if case.get('np_values'):
        import numpy as _np      # user rules often return numpy scalars
        dur = {u: _np.float64(d) for u, d in dur.items()}
        delay = {p: _np.float64(d) for p, d in delay.items()}
    return nodes, adj, dur, delay


def run_sim(case, full, budget):
    import EoN
    nodes, adj, dur, delay = tables(case, raw=True)
    a_tr, a_rec = case.get('args') or (1, 1)
    G = oracles.build_graph(case['gc'])
    I0 = [oracles.tolabel(u) for u in case['I0']]
    R0 = [oracles.tolabel(u) for u in case['R0']]
    tmax = _v(case['tmax'])
    kw = dict(initial_infecteds=list(I0), tmin=case['tmin'], tmax=tmax, return_full_data=full)
    if R0:
        kw['initial_recovereds'] = list(R0)
    if case['api'] == 'two':
        def trans(u, v, scale):
            budget.tick()
            return delay[(u, v)] * scale

        def rec(u, scale):
            budget.tick()
            return dur[u] * scale
        return EoN.fast_nonMarkov_SIR(G, trans_time_fxn=trans, rec_time_fxn=rec, trans_time_args=(a_tr,), rec_time_args=(a_rec,), **kw)

    def joint(u, sus, s_tr, s_rec):
        budget.tick()
        d = {v: delay[(u, v)] * s_tr for v in sus}
        if case['api'] == 'joint-filtered':
            d = {v: x for v, x in d.items() if x <= dur[u] * s_rec}
        return d, dur[u] * s_rec
    return EoN.fast_nonMarkov_SIR(G, trans_and_rec_time_fxn=joint, trans_and_rec_time_args=(a_tr, a_rec), **kw)


def prop_fpp(case, runner=None, table_fn=None, name='fast_nonMarkov_SIR'):
    runner = runner or run_sim
    nodes, adj, dur, delay = (table_fn or tables)(case)
    I0 = [oracles.tolabel(u) for u in case['I0']]
    R0 = [oracles.tolabel(u) for u in case['R0']]
    tmin, tmax = case['tmin'], _v(case['tmax'])
    inf_t, rec_t, preds = oracles.first_passage(nodes, adj, delay, dur, I0, R0, tmin, tmax)
    fails = []
    N = len(nodes)
    # expected collapsed series
    evs = sorted(set([tmin] + list(inf_t.values()) + list(rec_t.values())))
    want_rows = []
    for t in evs:
        i_ = sum(1 for u in inf_t if inf_t[u] <= t and not (u in rec_t and rec_t[u] <= t))
        r_ = len(R0) + sum(1 for u in rec_t if rec_t[u] <= t)
        want_rows.append((N - i_ - r_, i_, r_))
    budget = CallBudget(50 * (len(delay) + N + 1), 'delay/duration rule')
    try:
        arr = runner(case, False, budget)
        t = [float(x) for x in arr[0]]
        rows = list(zip(*[[int(x) for x in col] for col in arr[1:]]))
        ct, cr = [], []
        for a, r in zip(t, rows):
            if ct and ct[-1] == a:
                cr[-1] = r
            else:
                ct.append(a); cr.append(r)
        if ct != [float(x) for x in evs] or cr != want_rows:
            fails.append(Failure('%s:arrays-differ-from-first-passage' % name,
                                 'arrays (ties collapsed) t=%r rows=%r; first-passage percolation gives t=%r rows=%r' % (ct, cr, evs, want_rows)))
        n_events = len(inf_t) - len(I0) + len(rec_t)
        if len(t) != n_events + 1:
            fails.append(Failure('%s:arrays-row-count' % name, '%d rows for %d events after tmin' % (len(t), n_events)))
    except RunawayError as e:
        fails.append(Failure('%s:arrays:non-termination' % name, str(e)))
    except Exception as e:
        fails.append(Failure('%s:arrays:exception:%s' % (name, exc_signature(e)), 'arrays mode raised %r' % (e,)))
    budget = CallBudget(50 * (len(delay) + N + 1), 'delay/duration rule')
    try:
        full = runner(case, True, budget)
        for u in nodes:
            ts, ss = full.node_history(u)
            ts, ss = [float(x) for x in ts], list(ss)
            gi = [a for a, s in zip(ts, ss) if s == 'I']
            gr = [a for a, s in zip(ts, ss) if s == 'R']
            wi = [float(inf_t[u])] if u in inf_t else []
            wr = [float(rec_t[u])] if u in rec_t else ([float(tmin)] if u in R0 else [])
            if u in rec_t and rec_t[u] == tmin and gi == []:
                gi = wi     # zero-length infection at tmin: the history keeps only the final status at tmin (representation, not timing)
            if gi != wi or gr != wr:
                fails.append(Failure('%s:%s' % (name, 'infection-time' if gi != wi else 'recovery-time'),
                                     'node %r: infected at %r, recovered at %r; first-passage percolation: infected at %r, recovered at %r'
                                     % (u, gi, gr, wi, wr)))
                break
        got_src = {}
        for (a, s, v) in full.transmissions():
            got_src.setdefault(v, []).append((float(a), s))
        for v in inf_t:
            ent = got_src.get(v, [])
            if len(ent) != 1:
                fails.append(Failure('%s:transmission-entries' % name, 'node %r infected at %r has %d transmission entries %r' % (v, inf_t[v], len(ent), ent)))
                break
            a, s = ent[0]
            if a != inf_t[v] or s not in preds[v]:
                fails.append(Failure('%s:infector-not-on-shortest-path' % name,
                                     'node %r: recorded (time, infector) %r; shortest-path time %r, admissible predecessors %r'
                                     % (v, ent[0], inf_t[v], sorted(preds[v], key=repr))))
                break
        extra = [v for v in got_src if v not in inf_t]
        if extra:
            fails.append(Failure('%s:transmission-to-uninfected' % name, 'transmissions recorded to %r which first-passage percolation never infects before tmax' % (extra[:4],)))
    except RunawayError as e:
        fails.append(Failure('%s:full:non-termination' % name, str(e)))
    except Exception as e:
        fails.append(Failure('%s:full:exception:%s' % (name, exc_signature(e)), 'full-data mode raised %r' % (e,)))
    # non-trivial: an edge pruned by duration and a node reached by two candidate paths or a tmax cut
    pruned = any(not (delay[p] <= dur[p[0]]) for p in delay)
    two = any(len(p) >= 2 for p in preds.values()) or any(
        sum(1 for u in adj if v in adj[u] and u in inf_t and delay[(u, v)] <= dur[u]) >= 2 for v in inf_t if v not in I0)
    cut = tmax != INF and any(True for u in nodes if u not in inf_t and u not in R0)
    classes = ['api=' + case.get('api', 'fast_SIR')] + (['pruned-edge'] if pruned else []) + (['two-paths'] if two else []) + \
              (['ties'] if any(len(p) >= 2 for p in preds.values()) else []) + (['R0'] if R0 else [])
    return Result(fails, nontrivial=pruned and (two or cut), classes=classes)


# ---------------------------------------------------------------------------
# fast_SIR on its weighted / zero-rate path: the wrapper around the same engine
# ---------------------------------------------------------------------------

class _MeanDelays(object):
    """stands in for the `random` module: every exponential draw returns its mean 1/rate, so the delays and durations the
    wrapper hands to the event engine are known exactly (1/(tau*w_uv), 1/(gamma*w_u)); anything else is the real module"""
    def expovariate(self, rate):
        return 1.0 / rate

    def __getattr__(self, name):
        import random as _r
        return getattr(_r, name)


@st.composite
def fastsir_case(draw):
    directed = draw(st.booleans())
    gc = draw(gen.graph_case(2, 7, labels=('int', 'str', 'tuple'), weighted=True, directed=directed, wpool=[0.5, 1.0, 2.0, 4.0, 0.25]))
    el, nl = draw(st.sampled_from(gen.ELABELS)), draw(st.sampled_from(gen.NLABELS))        # attribute names, incl. the falsy ''
    gc['ew'] = {el: [draw(st.sampled_from([0.5, 1.0, 2.0, 4.0, 0.25])) for _ in gc['edges']]}
    gc['nw'] = {nl: [draw(st.sampled_from([0.5, 1.0, 2.0, 4.0])) for _ in gc['nodes']]}
    I0, R0 = draw(gen.initial_sets(gc['nodes']))
    tmin = draw(st.sampled_from([0, 0, -1.5, 2]))
    mode = draw(st.sampled_from(['weighted', 'weighted', 'node-weighted-only+tau0', 'gamma0', 'edge-weighted-only']))
    tau = 0.0 if mode.endswith('tau0') else draw(st.sampled_from([0.5, 1.0, 2.0]))
    gamma = 0.0 if mode == 'gamma0' else draw(st.sampled_from([0.5, 1.0, 2.0]))
    return {'gc': gc, 'I0': I0, 'R0': R0, 'tmin': tmin, 'tmax': draw(st.sampled_from(['inf', 'inf', tmin + 1, tmin + 2.5, tmin + 4])),
            'tau': tau, 'gamma': gamma, 'mode': mode}


def fastsir_tables(case):
    gc = case['gc']
    nodes, adj = oracles.adjacency(gc)
    use_ew = case['mode'] in ('weighted', 'edge-weighted-only')
    use_nw = case['mode'] in ('weighted', 'node-weighted-only+tau0', 'gamma0')
    ew = oracles.edge_weight_fn(gc, list(gc['ew'])[0] if use_ew else None)
    nw = oracles.node_weight_fn(gc, list(gc['nw'])[0] if use_nw else None)
    dur = {}
    for u in nodes:
        r = case['gamma'] * nw(u)
        dur[u] = 1.0 / r if r > 0 else INF
    delay = {}
    for u in nodes:
        for v in adj[u]:
            r = case['tau'] * ew(u, v)
            delay[(u, v)] = 1.0 / r if r > 0 else INF
    return nodes, adj, dur, delay


def run_fastsir(case, full, budget):
    import EoN
    import EoN.simulation as sim
    G = oracles.build_graph(case['gc'])
    kw = dict(initial_infecteds=[oracles.tolabel(u) for u in case['I0']], tmin=case['tmin'], tmax=_v(case['tmax']), return_full_data=full)
    if case['R0']:
        kw['initial_recovereds'] = [oracles.tolabel(u) for u in case['R0']]
    if case['mode'] in ('weighted', 'edge-weighted-only'):
        kw['transmission_weight'] = list(case['gc']['ew'])[0]
    if case['mode'] in ('weighted', 'node-weighted-only+tau0', 'gamma0'):
        kw['recovery_weight'] = list(case['gc']['nw'])[0]
    import random as _random
    if getattr(sim, 'random', None) is not _random:
        from ..runner import HarnessError
        raise HarnessError('EoN.simulation.random is not the stdlib random module')
    sim.random = _MeanDelays()
    args = [G, case['tau'], case['gamma']]
    if (len(case['gc']['edges']) + len(case['I0'])) % 2 == 1:
        from .. import simrun
        args, kw = simrun.positional('fast_SIR', args, kw)        # every argument by position, in the documented order
    try:
        return EoN.fast_SIR(*args, **kw)
    finally:
        sim.random = _random


def prop_fastsir(case):
    if case['mode'] == 'edge-weighted-only' and case['tau'] * case['gamma'] == 0:
        pass
    res = prop_fpp(case, runner=run_fastsir, table_fn=fastsir_tables, name='fast_SIR')
    res.classes = ['mode=' + case['mode']] + (['directed-input'] if case['gc'].get('directed') else ['undirected-input']) + res.classes[1:]
    return res


# ---------------------------------------------------------------------------
# builders and get_infected_nodes
# ---------------------------------------------------------------------------

def prop_builders(case):
    import EoN
    import EoN.simulation as sim
    nodes, adj, dur, delay = tables(case)
    G = oracles.build_graph(case['gc'])
    fails = []
    want_edges = set(p for p in delay if delay[p] <= dur[p[0]])
    for weights in (True, False):
        name = 'nonMarkov_directed_percolate_network_with_timing'
        try:
            H = EoN.nonMarkov_directed_percolate_network_with_timing(
                G, lambda u, v, k: delay[(u, v)], lambda u: dur[u], trans_time_args=(0,), rec_time_args=(), weights=weights)
            if not H.is_directed() or set(H.nodes()) != set(nodes):
                fails.append(Failure('%s:node-set' % name, 'directed=%r nodes=%r, G has %r' % (H.is_directed(), sorted(H.nodes(), key=repr), nodes)))
                continue
            if set(H.edges()) != want_edges:
                fails.append(Failure('%s:edge-set' % name, 'edges %r; delay<=duration keeps %r (weights=%r)'
                                     % (sorted(H.edges(), key=repr), sorted(want_edges, key=repr), weights)))
                continue
            if weights:
                badn = [u for u in nodes if H.nodes[u].get('duration') != dur[u]]
                bade = [e for e in want_edges if H.edges[e].get('delay_to_infection') != delay[e]]
                if badn or bade:
                    fails.append(Failure('%s:attributes' % name, 'duration wrong on %r, delay_to_infection wrong on %r' % (badn[:3], bade[:3])))
        except Exception as e:
            fails.append(Failure('%s:exception:%s' % (name, exc_signature(e)), 'raised %r' % (e,)))
    # get_infected_nodes with the builder spied
    I0 = [oracles.tolabel(u) for u in case['I0']]
    R0 = [oracles.tolabel(u) for u in case['R0']]
    captured = []
    orig = getattr(sim, 'directed_percolate_network', None)
    if orig is not None:
        def spy(*a, **k):
            H = orig(*a, **k)
            captured.append(H.copy())
            return H
        sim.directed_percolate_network = spy
        try:
            random.seed(case.get('seed', 1))
            res = set(EoN.get_infected_nodes(G, 1.0, 1.0, initial_infecteds=list(I0), initial_recovereds=list(R0) if R0 else None))
            if captured:
                H = captured[-1]
                succ = {u: [v for v in H.successors(u) if v not in R0] for u in nodes}
                want = set()
                for u in I0:
                    want |= oracles.reach(succ, u)
                if res != want:
                    fails.append(Failure('get_infected_nodes:not-the-out-component',
                                         'returned %r; out-component of I0=%r in the percolated graph minus R0=%r is %r'
                                         % (sorted(res, key=repr), I0, R0, sorted(want, key=repr))))
                if set(H.nodes()) != set(nodes):
                    fails.append(Failure('directed_percolate_network:node-set', 'percolated graph nodes %r != %r' % (sorted(H.nodes(), key=repr), nodes)))
                if not set(H.edges()) <= set(delay):
                    fails.append(Failure('directed_percolate_network:invents-edge', 'percolated graph has edges outside G'))
        except Exception as e:
            fails.append(Failure('get_infected_nodes:exception:%s' % exc_signature(e), 'raised %r' % (e,)))
        finally:
            sim.directed_percolate_network = orig
    pruned = any(not (delay[p] <= dur[p[0]]) for p in delay)
    return Result(fails, nontrivial=pruned and len(delay) >= 2, classes=['builders'] + (['spied'] if captured else ['not-spied']))


# ---------------------------------------------------------------------------
# directed_percolate_network marginals (exact binomial tests, two-stage rule)
# ---------------------------------------------------------------------------

def _binom_p(k, n, p):
    from scipy.stats import binomtest
    return binomtest(k, n, p).pvalue


def marginal_check(ctx, sub, quick):
    if ctx.shard_id != 0:
        return
    import EoN
    import networkx as nx
    G = nx.star_graph(3)   # centre 0 with 3 leaves: same-source pairs exist
    cfgs = [(1.0, 1.0), (2.0, 0.5), (0.3, 1.0), (0.0, 1.0), (1.5, 0.0)] + ([] if quick else [(1.0, 3.0), (5.0, 1.0)])     # incl. the corners: nothing / everything kept
    for ci, (tau, gamma) in enumerate(cfgs):
        p_edge = tau / (tau + gamma)
        p_pair = 1 - 2 * gamma / (tau + gamma) + gamma / (2 * tau + gamma)
        for stage, M in ((1, 4000 if quick else 40000), (2, 16000 if quick else 160000)):
            random.seed(ctx.seed * 1009 + ci * 17 + stage)
            k_edge = k_pair = 0
            try:
                for _ in range(M):
                    H = EoN.directed_percolate_network(G, tau, gamma)
                    k_edge += H.has_edge(0, 1) + H.has_edge(1, 0)
                    k_pair += H.has_edge(0, 1) and H.has_edge(0, 2)
            except Exception as e:
                f = Failure('directed_percolate_network:exception:%s' % exc_signature(e), 'tau=%r gamma=%r raised %r' % (tau, gamma, e))
                if ctx.split([f]):
                    ctx.violation(sub, {'tau': tau, 'gamma': gamma, 'M': M}, f)
                break
            ctx.count_only(sub, M, ['marg-%d' % ci] if stage == 1 else [])
            pe = _binom_p(int(k_edge), 2 * M, p_edge)
            pp = _binom_p(int(k_pair), M, p_pair)
            if stage == 1 and min(pe, pp) >= 1e-3:
                break
            if stage == 2 and min(pe, pp) < 1e-6:
                f = Failure('directed_percolate_network:marginals',
                            'tau=%r gamma=%r: edge kept %d/%d (expected %.4f, p=%.3g); same-source pair kept %d/%d (expected %.4f, p=%.3g)'
                            % (tau, gamma, k_edge, 2 * M, p_edge, pe, k_pair, M, p_pair, pp))
                if ctx.split([f]):
                    ctx.violation(sub, {'tau': tau, 'gamma': gamma, 'M': M}, f)
    ctx.add_sample(sub, {'graph': 'star(3)', 'configs': cfgs})


def replay(ctx, sub, case):
    if sub == 'builders':
        return prop_builders(case).failures
    if sub == 'fast_SIR-wrapper':
        return prop_fastsir(case).failures
    if sub == 'marginals':
        before = len(ctx.violations)
        marginal_check(ctx, 'marginals', True)
        return [Failure(v['signature'], v['message']) for v in ctx.violations[before:]]
    return prop_fpp(case).failures


def run(ctx):
    quick = ctx.tier == 'quick'
    ctx.rule = ('Hypothesis: graph n<=7 (any labels), delay per ordered pair and duration per node from {0,.5,1,1.5,2,3,inf} or k/8 grid, '
                'I0/R0, tmin in {0,-1.5,2}, tmax in {inf, +1, +2, +2.5, +4}, API in {two functions, joint (all neighbours), joint '
                '(recipients only)}, both return modes; oracle = own Dijkstra first-passage percolation with tie sets (exact equality). '
                'Non-trivial: an edge pruned by duration and (a node with two candidate paths or a tmax cut). Builders: same tables '
                'through nonMarkov_directed_percolate_network_with_timing (weights on/off); get_infected_nodes with the builder spied; '
                'directed_percolate_network marginals by two-stage exact binomial tests. fast_SIR-wrapper: fast_SIR on its weighted and zero-rate paths with '
                'every exponential draw replaced by its mean 1/rate (directed and undirected inputs, asymmetric reciprocal weights) vs the same oracle.')
    ctx.assumptions = ['delay/duration rules are pure functions of their arguments', 'dyadic values, so float additions are exact',
                       'simultaneous rows are compared after collapsing equal times (their relative order is the queue\'s choice)']
    only = getattr(ctx, 'only', None)
    if not only or 'fpp' in only:
        run_hypothesis(ctx, 'fpp', fpp_case(), prop_fpp, 2500 if quick else 150000, rounds=4)
    if not only or 'fast_SIR-wrapper' in only:
        run_hypothesis(ctx, 'fast_SIR-wrapper', fastsir_case(), prop_fastsir, 700 if quick else 30000)
    if not only or 'builders' in only:
        run_hypothesis(ctx, 'builders', fpp_case(), prop_builders, 400 if quick else 10000)
    if not only or 'marginals' in only:
        marginal_check(ctx, 'marginals', quick)
