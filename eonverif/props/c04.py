"""C04 - trajectories are well-formed: conserved counts, ordered time, one event a step.

Hypothesis over all twelve simulators x graphs n<=25 (isolated nodes, n=1) x rates incl. 0 x tmin/tmax x weights x
initial sets x both return modes, real RNG seeded per case; validity predicate on the returned series.
A second, table-driven sub-check puts events *exactly* on the horizon (dyadic delays, tmax on the grid) for the
event-driven simulators, and the Gillespie family is driven by the forking source with clock values that hit
tmax exactly, so the strict '< tmax' clause is exercised (a real RNG never produces such ties).
"""
import math
from hypothesis import strategies as st

from ..runner import Failure, Result, run_hypothesis, exc_signature, CallBudget, RunawayError
from .. import simrun, oracles, forkrng, gen

ID = 'C04'
LEVEL = 'exploration'
INF = float('inf')


def _sum_of_moves(d, moves, limit=6):
    """can the row difference d be written as a sum of at most `limit` legal moves?"""
    target = {k: v for k, v in d.items() if v}
    frontier = [dict()]
    for _ in range(limit):
        nxt = []
        for cur in frontier:
            for a, b in moves:
                c = dict(cur)
                c[a] = c.get(a, 0) - 1
                c[b] = c.get(b, 0) + 1
                c = {k: v for k, v in c.items() if v}
                if c == target:
                    return True
                nxt.append(c)
        frontier = nxt[:2000]
    return False


def check_series(case, t, D, mode, N):
    """validity predicate; returns list of Failure"""
    sim = case['sim']
    name = '%s:%s' % (sim, mode)
    fails = []
    sts = simrun.statuses_of(case)
    tmin, tmax = case['tmin'], simrun.tmax_of(case)
    disc = sim in simrun.DISCRETE
    L = len(t)
    if any(len(D[s]) != L for s in D) or set(D) != set(sts):
        return [Failure(name + ':lengths', 'series lengths differ: t has %d, counts %r' % (L, {s: len(v) for s, v in D.items()}))]
    if L == 0:
        return [Failure(name + ':empty', 'empty series')]
    if t[0] != tmin:
        fails.append(Failure(name + ':first-time', 't[0]=%r but tmin=%r' % (t[0], tmin)))
    if any(b < a for a, b in zip(t, t[1:])):
        fails.append(Failure(name + ':time-order', 'times decrease: %r' % (t[:12],)))
    if not disc:
        late = [x for x in t[1:] if not (x < tmax)]
        if late:
            fails.append(Failure(name + ':reaches-tmax', 'reported time %r is not < tmax=%r' % (late[0], tmax)))
    else:
        span = tmax - tmin
        if span != INF and float(span).is_integer():
            late = [x for x in t if x > tmax]
            if late:
                fails.append(Failure(name + ':exceeds-tmax', 'reported time %r exceeds tmax=%r (tmax-tmin whole)' % (late[0], tmax)))
    for s in sts:
        for x in D[s]:
            if isinstance(x, float) and not float(x).is_integer() or x < 0:
                fails.append(Failure(name + ':count-range', 'count of %s is %r (not a non-negative integer)' % (s, x)))
                break
    rows = list(zip(*[D[s] for s in sts]))
    bad = [i for i, r in enumerate(rows) if sum(r) != N]
    if bad:
        fails.append(Failure(name + ':conservation', 'row %d %r sums to %d, N=%d' % (bad[0], dict(zip(sts, rows[bad[0]])), sum(rows[bad[0]]), N)))
    tied = mode.endswith('full') and (case.get('rule') or {}).get('kind') == 'table'
    # (the full-data summary has one row per distinct time: scripted simultaneous events collapse there, by design)
    if not disc and not tied:
        moves = simrun.legal_moves(case)
        for i in range(1, L):
            d = {s: rows[i][k] - rows[i - 1][k] for k, s in enumerate(sts) if rows[i][k] != rows[i - 1][k]}
            minus = [s for s, v in d.items() if v == -1]
            plus = [s for s, v in d.items() if v == 1]
            if not d and any(a == b for a, b in moves):
                continue            # the model has events that leave the status unchanged (failed attempts)
            if mode.endswith('full') and abs(t[i]) >= 1e8 and _sum_of_moves(d, moves):
                continue            # one summary row per distinct time: at |t| >= 1e8 a float clock (spacing >= 1.5e-8) can put two events on one instant
            if len(d) != 2 or len(minus) != 1 or len(plus) != 1 or (minus[0], plus[0]) not in moves:
                fails.append(Failure(name + ':one-legal-move', 'rows %d->%d change by %r (t=%r), not one legal move of %r'
                                     % (i - 1, i, d, t[i], sorted(moves))))
                break
    init = list(simrun.initial_status(case).values())
    want0 = {s_: init.count(s_) for s_ in sts}
    if case.get('use_rho') is not None:
        k = int(round(N * case['use_rho']))
        want0 = {'S': N - k, 'I': k}
        if 'R' in sts:
            want0['R'] = 0
    got0 = {s_: D[s_][0] for s_ in sts}
    if got0 != want0 and not fails and not tied:
        fails.append(Failure(name + ':row0', 'first row %r is not the initial condition %r (synthetic rows left in / dropped?)' % (got0, want0)))
    if simrun.KIND[sim] == 'SIR':
        if any(b > a for a, b in zip(D['S'], D['S'][1:])):
            fails.append(Failure(name + ':S-increases', 'S increases: %r' % (D['S'][:12],)))
        if any(b < a for a, b in zip(D['R'], D['R'][1:])):
            fails.append(Failure(name + ':R-decreases', 'R decreases: %r' % (D['R'][:12],)))
        rec_pos = True
        if sim in ('fast_SIR', 'Gillespie_SIR'):
            rec_pos = case['gamma'] > 0
        elif sim == 'fast_nonMarkov_SIR':
            rec_pos = (case['rule']['kind'] == 'exp' and case['gamma'] > 0) or \
                      (case['rule']['kind'] == 'table' and all(d != 'inf' for d in case['rule']['dur']))
        if tmax == INF and rec_pos and D['I'][-1] != 0:
            fails.append(Failure(name + ':ends-with-infected', 'unbounded horizon, positive recovery rate, but last I=%r' % (D['I'][-1],)))
    return fails


def classify_end(case, t, D):
    tmax = simrun.tmax_of(case)
    if len(t) <= 1:
        return 'ended-immediately'
    if 'I' in D and D['I'][-1] == 0:
        return 'ended-by-extinction'
    return 'ended-by-horizon' if tmax != INF else 'ended-no-events-left'


@st.composite
def rho_case(draw):
    case = draw(simrun.sim_case(sims=[s_ for s_ in simrun.SIMS if simrun.KIND[s_] != 'generic'], nmax=14))
    case['use_rho'] = draw(st.sampled_from([0.1, 0.25, 0.5, 0.05, 0.75, 1.0, 0.3]))
    case['R0'] = []
    return case


def prop_case(case):
    N = simrun.population(case)
    fails = []
    classes = [case['sim']]
    nontrivial = False
    for full in (False, True):
        mode = 'full' if full else 'arrays'
        budget = CallBudget(200000, 'user rule')
        try:
            out = simrun.call(case, full, budget=budget)
            t, D = simrun.as_series(case, out, full)
        except RunawayError as e:
            fails.append(Failure('%s:%s:non-termination' % (case['sim'], mode), str(e)))
            continue
        except Exception as e:
            fails.append(Failure('%s:%s:exception:%s' % (case['sim'], mode, exc_signature(e)), '%s mode raised %r' % (mode, e)))
            continue
        fails += check_series(case, t, D, mode, N)
        if full and len(case['gc']['nodes']) >= 2 and not fails and not case.get('bystanders'):
            # the population series read again after the same object was asked about a sub-population
            try:
                nodes_ = [oracles.tolabel(u) for u in case['gc']['nodes']]
                out.summary(nodelist=nodes_[:max(1, len(nodes_) // 2)])
                t2, D2 = simrun.as_series(case, out, True)
                fails += check_series(case, t2, D2, 'reread-full', N)
            except Exception as e:
                fails.append(Failure('%s:reread-full:exception:%s' % (case['sim'], exc_signature(e)), 'raised %r' % (e,)))
        if not full:
            end = classify_end(case, t, D)
            classes.append(end)
            nontrivial = len(t) >= 3
    if case['gc'].get('edges') == []:
        classes.append('edgeless')
    return Result(fails, nontrivial=nontrivial, classes=classes)


# ---------------------------------------------------------------------------
# events exactly on the horizon
# ---------------------------------------------------------------------------

@st.composite
def horizon_case(draw):
    sim = draw(st.sampled_from(['fast_nonMarkov_SIR', 'fast_nonMarkov_SIS']))
    case = draw(simrun.sim_case(sims=[sim], nmax=7, table_bias=True))
    case['tmax'] = case['tmin'] + draw(st.sampled_from([0.5, 1.0, 1.5, 2.0, 3.0]))
    return case


class _ClockModel(object):
    """Gillespie simulators under the forking source: scripted clock delays are dyadic, tmax is put exactly on one
    of the cumulative event times; every fork takes its first alternative of positive probability."""


def gillespie_on_horizon(case, k):
    """Run a Gillespie simulator with the forking source (first alternatives) so that event k would occur exactly at tmax."""
    tms = []
    t = case['tmin']
    for i in range(k + 1):
        t = t + forkrng.DELAYS[i % len(forkrng.DELAYS)]
        tms.append(t)
    c = dict(case)
    c['tmax'] = tms[k]
    outs = {}
    for full in (False, True):
        rng = forkrng.ForkRNG([], max_clocks=40, prefer_true=(k % 2 == 0))
        try:
            with forkrng.installed(rng):
                out = simrun.call(c, full, seed=False)
            outs[full] = simrun.as_series(c, out, full)
        except forkrng._Restart:
            return c, None
    return c, outs


@st.composite
def gillespie_horizon_case(draw):
    sim = draw(st.sampled_from(['Gillespie_SIR', 'Gillespie_SIS', 'Gillespie_simple_contagion', 'Gillespie_complex_contagion']))
    case = draw(simrun.sim_case(sims=[sim], nmax=6))
    if case['tau'] == 0:
        case['tau'] = 1.0
    if case['gamma'] == 0:
        case['gamma'] = 0.5
    case['ew'] = None
    case['nw'] = None
    if sim == 'Gillespie_simple_contagion':
        case['spec'] = draw(st.sampled_from([0, 2, 3, 4, 5]))   # unweighted canonical models (no rejection loops)
        case['IC'] = [draw(st.sampled_from(simrun.SPECS[case['spec']][0])) for _ in case['gc']['nodes']]
    case['k'] = draw(st.integers(0, 5))
    return case


def prop_alias(case):
    """Gillespie_Arbitrary is the same simulator under its legacy name: identical output for identical seeds, in both return modes"""
    import contextlib, io
    import random as _r
    import numpy as np
    import EoN
    fails = []
    for full in (False, True):
        try:
            f, args, kw = simrun.build(case, full, budget=CallBudget(200000))
            _r.seed(case['seed']); np.random.seed(case['seed'] % 2 ** 32)
            a = f(*args, **kw)
            f, args, kw = simrun.build(case, full, budget=CallBudget(200000))
            _r.seed(case['seed']); np.random.seed(case['seed'] % 2 ** 32)
            with contextlib.redirect_stdout(io.StringIO()):
                b = EoN.Gillespie_Arbitrary(*args, **kw)
            if simrun.as_series(case, a, full) != simrun.as_series(case, b, full):
                fails.append(Failure('Gillespie_Arbitrary:differs-from-Gillespie_simple_contagion:%s' % ('full' if full else 'arrays'),
                                     'same seeds, same arguments: the legacy name returns a different result'))
        except Exception as e:
            fails.append(Failure('Gillespie_Arbitrary:exception:%s' % exc_signature(e), 'raised %r' % (e,)))
            break
    return Result(fails, nontrivial=True, classes=['legacy-alias'])


def prop_gillespie_horizon(case):
    N = simrun.population(case)
    try:
        c, outs = gillespie_on_horizon(case, case['k'])
    except Exception as e:
        if isinstance(e, forkrng.HarnessError if hasattr(forkrng, 'HarnessError') else ()):
            raise
        from ..runner import HarnessError
        if isinstance(e, HarnessError):
            raise
        return Result([Failure('%s:horizon:exception:%s' % (case['sim'], exc_signature(e)), 'raised %r' % (e,))])
    if outs is None:
        return Result([], nontrivial=False, classes=['restart-skipped'])
    fails = []
    hit = False
    for full, (t, D) in outs.items():
        fails += check_series(c, t, D, 'horizon-' + ('full' if full else 'arrays'), N)
        if len(t) == case['k'] + 1:
            hit = True
    return Result(fails, nontrivial=hit, classes=[case['sim']] + (['event-due-exactly-at-tmax'] if hit else []))


def replay(ctx, sub, case):
    if sub == 'gillespie-horizon':
        return prop_gillespie_horizon(case).failures
    if sub == 'legacy-alias':
        return prop_alias(case).failures
    return prop_case(case).failures


def run(ctx):
    quick = ctx.tier == 'quick'
    ctx.rule = ('Hypothesis: simulator (12) x graph n<=25 (1/4 of cases n<=4; isolated nodes, n=1) x rates incl. 0 x p incl. 0/1 x '
                'tmin in {0,-1.5,2,2.5} x tmax (inf / whole / fractional offsets) x weights x I0/R0 x seed, both return modes; '
                'predicate: equal lengths, t[0]=tmin, ordered, <tmax (discrete: <=tmax when whole), integer counts>=0 summing to N, '
                'one legal move per row (continuous), SIR monotone, extinction for unbounded horizon. Sub-checks "horizon" '
                '(table-driven event-driven runs with events exactly at tmax) and "gillespie-horizon" (forking source, clock '
                'sum exactly tmax). Non-trivial: >=3 rows; classes ended-by-horizon/extinction/immediately reported.')
    ctx.assumptions = ['tmax > tmin', 'all statuses listed in return_statuses for the generic simulators',
                       'legal moves of the generic simulators are read from the specification given to them']
    only = getattr(ctx, 'only', None)
    if not only or 'random' in only:
        from ..runner import check_class_fractions
        for sim in simrun.SIMS:          # equal share per simulator
            run_hypothesis(ctx, 'random', simrun.sim_case(sims=[sim]), prop_case, 125 if quick else 5000)
        check_class_fractions(ctx, 'random', {'ended-by-horizon': 0.1, 'ended-by-extinction': 0.1, 'ended-immediately': 0.05})
    if not only or 'large' in only:
        for sim in simrun.SIMS:          # 70-150 nodes, hub of degree >= 69, heavy-tailed weights: size / rejection-count thresholds
            run_hypothesis(ctx, 'large', simrun.large_case(sim), prop_case, 20 if quick else 300, rounds=2, case_timeout=300)
    if not only or 'legacy-alias' in only:
        run_hypothesis(ctx, 'legacy-alias', simrun.sim_case(sims=['Gillespie_simple_contagion'], nmax=10), prop_alias, 40 if quick else 1000, rounds=2)
    if not only or 'rho' in only:
        run_hypothesis(ctx, 'rho', rho_case(), prop_case, 300 if quick else 10000)
    if not only or 'horizon' in only:
        run_hypothesis(ctx, 'horizon', horizon_case(), prop_case, 400 if quick else 10000)
    if not only or 'gillespie-horizon' in only:
        run_hypothesis(ctx, 'gillespie-horizon', gillespie_horizon_case(), prop_gillespie_horizon, 300 if quick else 5000)
