"""C02 - Gillespie_SIS and fast_SIS sample the exact network SIS chain.

Same engines as C01 with the SIS event set (I->S at gamma*w_u) and a horizon: exact step laws of Gillespie_SIS on
complete history trees (n<=3, bounded horizon) and along Hypothesis-generated walks of up to 14 events
(reinfections), plus Monte-Carlo node-state laws at two times T<tmax for fast_SIS and Gillespie_SIS against the
2^N master equation.
"""
from hypothesis import strategies as st

from ..runner import Failure, Result, run_hypothesis
from .. import oracles, steplaw, gen, mc
from . import c01

ID = 'C02'
LEVEL = 'exploration'


class SISModel(c01.SIRModel):
    sis = True
    simname = 'Gillespie_SIS'

    def kwargs(self, full):
        kw = super().kwargs(full)
        kw.pop('initial_recovereds', None)
        return kw


def reinfected(model, hist):
    cnt = {u: (1 if s == 'I' else 0) for u, s in model.init.items()}
    for e in hist:
        if e[1] == 'I':
            cnt[e[0]] += 1
    return any(c >= 2 for c in cnt.values())


def prop_tree(case, walk=None, max_depth=14, max_levels=1500):
    model = SISModel(case)
    flags = {'nt': False}

    def observe(hist, state, stats):
        if reinfected(model, hist):
            flags['nt'] = True
    fails, stats = steplaw.explore(model, 'Gillespie_SIS', walk=walk, max_depth=max_depth, max_levels=max_levels,
                                   observe=observe)
    classes = []
    if case.get('ew') is not None:
        classes.append('edge-weighted')
    if case.get('nw') is not None:
        classes.append('node-weighted')
    if case['tau'] == 0 or case['gamma'] == 0:
        classes.append('zero-rate')
    if flags['nt']:
        classes.append('reinfection')
    res = Result(fails, nontrivial=flags['nt'], classes=classes)
    res.stats = stats
    return res


def tree_prop(case):
    return prop_tree(case)


def prop_walk(case):
    return prop_tree(case, walk=case['walk'], max_depth=14)


SIS_RATES = [(1.0, 1.0), (2.0, 0.5), (0.0, 1.0), (1.5, 0.0)]


def mc_configs(sims, thorough=False):
    base = [
        dict(gc=c01._g(3, c01.TRI), tau=3.0, gamma=1.0, I0=[0]),
        dict(gc=c01._g(4, c01.K4), tau=0.5, gamma=1.0, I0=[1, 2]),
        dict(gc=c01._g(4, c01.PAW, ew=[2.0, 0.5, 1.0, 3.0], nw=[0.5, 2.0, 1.0, 1.0]), tau=1.5, gamma=1.0, I0=[2], ew='w', nw='rw'),
        dict(gc=c01._g(4, c01.STARCHORD), tau=2.0, gamma=1.0, I0=[0]),
        dict(gc=c01._g(3, c01.STAR3), tau=1.0, gamma=0.0, I0=[1]),
    ]
    if thorough:
        base += [
            dict(gc=c01._g(4, c01.K4), tau=3.0, gamma=1.0, I0=[0]),
            dict(gc=c01._g(4, c01.PATH4, nw=[1.0, 3.0, 0.5, 2.0]), tau=2.0, gamma=1.0, I0=[1], nw='rw'),
            dict(gc=c01._g(4, c01.STAR4, ew=[1.0, 2.0, 0.5]), tau=1.5, gamma=1.0, I0=[0, 1], ew='w'),
            dict(gc=c01._g(3, c01.TRI), tau=0.5, gamma=1.0, I0=[0, 1]),
            dict(gc=c01._g(4, c01.PAW), tau=3.0, gamma=2.0, I0=[3]),
        ]
    out = []
    for sim in sims:
        for b in base:
            c = c01.falsy_labels(dict(b), len(out))
            c['positional'] = len(out) % 3 == 1
            c['sim'] = sim
            c['tmin'] = [0, -6.0, 2.5][len(out) % 3]      # the start time must not matter (in particular tmin < -1)
            g = c['gamma'] if c['gamma'] > 0 else 1.0
            c['times'] = [c['tmin'] + 0.6 / g, c['tmin'] + 2.0 / g]
            c['tmax'] = c['tmin'] + 2.5 / g
            out.append(c)
    return out


def tree_prop_weighted(case):
    model = SISModel(case)
    fails, stats = steplaw.explore(model, 'weighted-Gillespie_SIS', walk=None, max_depth=6, max_levels=600)
    res = Result(fails, nontrivial=True, classes=['weighted-SIS'])
    res.stats = stats
    return res


def behavioural_weighted(ctx, sub, quick):
    """weighted Gillespie_SIS trees with many distinct edge/node weights (behavioural half of C16)"""
    cases = []
    for n, edges in ((4, c01.PAW), (4, c01.STARCHORD), (3, c01.TRI)):
        for shift in range(2 if quick else 6):
            gc = {'nodes': ['n%d' % i for i in range(n)], 'edges': [['n%d' % a, 'n%d' % b] for a, b in edges],
                  'ew': {'w': gen.det_weights(len(edges), shift)}, 'nw': {'rw': gen.det_weights(n, shift + 2)}}
            cases.append({'gc': gc, 'tau': 1.0, 'gamma': 0.7, 'ew': 'w', 'nw': 'rw', 'I0': ['n%d' % (shift % n)], 'R0': [],
                          'tmin': 0, 'tmax': 2.0})
        # zero weights: a node that never recovers (it may end up as the only infected node) and an edge that never transmits
        for z in range(n if not quick else 2):
            nw = gen.det_weights(n, 1)
            nw[(z + 1) % n] = 0.0
            ew = gen.det_weights(len(edges), 3)
            ew[z % len(edges)] = 0.0
            gc = {'nodes': ['n%d' % i for i in range(n)], 'edges': [['n%d' % a, 'n%d' % b] for a, b in edges],
                  'ew': {'w': ew}, 'nw': {'': nw}}
            cases.append({'gc': gc, 'tau': 1.0, 'gamma': 0.7, 'ew': 'w', 'nw': '', 'I0': ['n%d' % z], 'R0': [], 'tmin': 0, 'tmax': 2.0})
    c01.run_exhaustive(ctx, sub, cases, 'eonverif.props.c02', 'tree_prop_weighted')


def replay(ctx, sub, case):
    if sub.startswith('mc'):
        return mc.replay_mc(ctx, case, 64000)
    if sub == 'tree-weighted':
        return tree_prop_weighted(case).failures
    if sub == 'skew':
        return c01.prop_skew(case).failures
    if 'walk' in case:
        return prop_walk(case).failures
    return prop_tree(case).failures


def run(ctx):
    quick = ctx.tier == 'quick'
    nmax = 3
    ctx.rule = ('(a) exhaustive: every labelled graph n<=%d x every S/I assignment with an infected node x weight modes x 4 rate '
                'pairs, complete Gillespie_SIS history tree up to the horizon (tmax=%s: %d events deep), exact step law/clock/time at '
                'every node; (b) Hypothesis graphs n<=6 with a generated walk of <=14 events (tmax up to tmin+100); (c) Monte-Carlo '
                'node-state law at two times T<tmax for fast_SIS and Gillespie_SIS vs the 2^N master equation. Non-trivial: a '
                'history in which some node is infected at least twice (MC: >=6 cells with expected >=5).'
                % (nmax, '2.0' if quick else '3.0', 3 if quick else 5))
    ctx.assumptions = ['randomness is drawn through EoN.simulation.random / np.random (also asserted by C18)',
                       'fast_SIS law is decided statistically (false-alarm bound 1e-9 per configuration)']
    only = getattr(ctx, 'only', None)
    if not only or 'tree' in only:
        cases = []
        for c in c01.exhaustive_cases(nmax, sis=True, rates=SIS_RATES):
            c['tmax'] = 2.0 if quick else 3.0
            cases.append(c)
        c01.run_exhaustive(ctx, 'tree', cases, 'eonverif.props.c02', 'tree_prop')
    if not only or 'tree-weighted' in only:
        behavioural_weighted(ctx, 'tree-weighted', quick)        # many distinct weights, zero-weight nodes and edges
    if not only or 'skew' in only:
        from ..runner import run_cases
        run_cases(ctx, 'skew', [c for c in c01.skew_cases(ctx.seed, quick) if c['sim'] == 'Gillespie_SIS'], c01.prop_skew, case_timeout=600)
    if not only or 'walk' in only:
        run_hypothesis(ctx, 'walk', c01.walk_case(sis=True), prop_walk, 600 if quick else 5000,
                       min_class_fraction={'reinfection': 0.05})
    if not only or 'mc' in only:
        mc.run_mc(ctx, 'mc', mc_configs(['fast_SIS', 'Gillespie_SIS'], thorough=not quick), 64000 if quick else 1000000)
