"""C14 - results depend on network structure, not on node names or ordering.

Metamorphic: the same call on G and on a relabelled copy (permuted ints / strings / tuples / mixed labels, shuffled
node and edge insertion order, flipped edge orientation) must give the same output: all graph-taking ODE entry
points (per-node outputs mapped through the bijection) and the simulators driven by deterministic table rules
(fast_nonMarkov_SIR, fast_nonMarkov_SIS with distinct event times, discrete_SIR), tables transported through the
bijection.
"""
import numpy as np
from hypothesis import strategies as st

from ..runner import Failure, Result, run_hypothesis, exc_signature, CallBudget, RunawayError
from .. import analytic_cases as ac, oracles, gen
from . import c11, c12, c13

ID = 'C14'
LEVEL = 'exploration'

WRAPPERS = sorted(n for n, e in ac.ENTRIES.items() if e.level == 'wrapper')


@st.composite
def bijection(draw, nodes):
    n = len(nodes)
    new = draw(gen.label_scheme(n, ('perm', 'str', 'tuple', 'mixed')))
    new = [oracles.tolabel(x) for x in new]
    order = list(draw(st.permutations(list(range(n)))))
    flips = [draw(st.booleans()) for _ in range(200)]
    eperm_seed = draw(st.integers(0, 10 ** 6))
    return {'new': new, 'order': order, 'flips': flips, 'eseed': eperm_seed}


def relabel_gc(gc, bij):
    import random
    nodes = [oracles.tolabel(u) for u in gc['nodes']]
    m = {u: bij['new'][i] for i, u in enumerate(nodes)}
    edges = [[m[oracles.tolabel(a)], m[oracles.tolabel(b)]] for a, b in gc['edges']]
    idx = list(range(len(edges)))
    random.Random(bij['eseed']).shuffle(idx)
    e2 = []
    for k, i in enumerate(idx):
        a, b = edges[i]
        e2.append([b, a] if (bij['flips'][k % len(bij['flips'])] and not gc.get('directed')) else [a, b])
    gc2 = {'nodes': [m[nodes[i]] for i in bij['order']], 'edges': e2, 'directed': gc.get('directed', False), 'ew': None, 'nw': None}
    if gc.get('ew'):
        gc2['ew'] = {lab: [ws[i] for i in idx] for lab, ws in gc['ew'].items()}
    if gc.get('nw'):
        gc2['nw'] = {lab: [ws[i] for i in bij['order']] for lab, ws in gc['nw'].items()}
    return gc2, m


NODE_LEVEL = [n for n in WRAPPERS if 'individual_based' in n or 'pair_based' in n]


@st.composite
def ode_case(draw, name=None):
    hub = draw(st.integers(0, 3)) == 0          # a node adjacent to everybody among 10-13 nodes: degree values 8 or more apart
    c = draw(ac.analytic_case(names=([name] if name else (NODE_LEVEL if draw(st.integers(0, 3)) == 0 else WRAPPERS)), nmax=13 if hub else 10,
                              labels=('int',), selfloops=True, weights=True, family='hub' if hub else None))
    c['bij'] = draw(bijection(c['gc']['nodes']))
    return c


def prop_ode(case):
    case = dict(case)
    case.pop('nodelist_perm', None)     # the explicit-nodelist variant is generated below from the bijection, not by the case generator
    e = ac.ENTRIES[case['entry']]
    ic = ac.make_ic(case)
    if not ic.regular_domain() or (e.singular and e.singular(ic)):
        return Result([], classes=['singular'])
    gc2, m = relabel_gc(case['gc'], case['bij'])
    c2 = dict(case)
    c2['gc'] = gc2
    c2['I0'] = [m[oracles.tolabel(u)] for u in case['I0']]
    c2['R0'] = [m[oracles.tolabel(u)] for u in case['R0']]
    N = float(ic.N)
    fails = []
    name = e.name
    for rfd in (False, True):
        try:
            with np.errstate(all='ignore'):
                a, _ = ac.call_entry(case, rfd, ic=ic)
        except Exception:
            continue      # C06's business
        try:
            with np.errstate(all='ignore'):
                b, _ = ac.call_entry(c2, rfd)
        except Exception as ex:
            fails.append(Failure('%s:relabelled:exception:%s' % (name, type(ex).__name__),
                                 '%s works on labels %r but raises %r on the relabelled copy %r' % (name, case['gc']['nodes'][:4], ex, gc2['nodes'][:4])))
            continue
        nodes1 = [oracles.tolabel(u) for u in case['gc']['nodes']]
        nodes2 = [oracles.tolabel(u) for u in gc2['nodes']]
        pos2 = {u: i for i, u in enumerate(nodes2)}
        perm = [pos2[m[u]] for u in nodes1]      # row of node u in the relabelled output
        for k, (x, y) in enumerate(zip(a, b)):
            if isinstance(x, dict) or isinstance(y, dict):
                continue
            x, y = np.asarray(x, dtype=float), np.asarray(y, dtype=float)
            if x.shape != y.shape:
                fails.append(Failure('%s:relabelled:shape' % name, 'output %d has shape %r, relabelled %r' % (k, x.shape, y.shape)))
                break
            pernode = rfd and ((x.ndim == 2 and x.shape[0] == int(N) and k >= 1) or (x.ndim == 3 and x.shape[0] == int(N) and x.shape[1] == int(N)))
            is_pernode_entry = ('individual_based' in name) or ('pair_based' in name)
            if pernode and is_pernode_entry:
                y = y[perm] if x.ndim == 2 else y[np.ix_(perm, perm)]
            d = float(np.max(np.abs(x - y))) if x.size else 0.0
            if not np.isfinite(d) or d > 1e-6 * N:
                fails.append(Failure('%s:changes-under-relabelling%s' % (name, ':full' if rfd else ''),
                                     '%s: output %d differs by %.3g between labels %r and the relabelled/reordered copy %r (N=%d, mode %s)'
                                     % (name, k, d, nodes1[:5], nodes2[:5], int(N), case['mode'])))
                break
    # node-level models also take an explicit nodelist: its order must not matter either
    if ('individual_based' in name or 'pair_based' in name) and not fails:
        c3 = dict(case)
        c3['nodelist_perm'] = list(case['bij']['order'])
        inv = {j: i for i, j in enumerate(c3['nodelist_perm'])}
        rows = [inv[j] for j in range(int(N))]          # row of node j in the explicit-nodelist output
        for rfd in (False, True):
            try:
                with np.errstate(all='ignore'):
                    a, _ = ac.call_entry(case, rfd, ic=ic)
            except Exception:
                continue
            try:
                with np.errstate(all='ignore'):
                    b, _ = ac.call_entry(c3, rfd, ic=ic)
            except Exception as ex:
                fails.append(Failure('%s:explicit-nodelist:exception:%s' % (name, type(ex).__name__),
                                     '%s raises %r when given nodelist=%r (order of G.nodes() is %r)' % (name, ex, c3['nodelist_perm'], list(range(int(N))))))
                continue
            for k, (x, y) in enumerate(zip(a, b)):
                x, y = np.asarray(x, dtype=float), np.asarray(y, dtype=float)
                if x.shape != y.shape:
                    continue
                if rfd and x.ndim == 2 and x.shape[0] == int(N) and k >= 1:
                    y = y[rows]
                elif rfd and x.ndim == 3 and x.shape[0] == int(N) and x.shape[1] == int(N):
                    y = y[np.ix_(rows, rows)]
                d = float(np.max(np.abs(x - y))) if x.size else 0.0
                if not np.isfinite(d) or d > 1e-6 * N:
                    fails.append(Failure('%s:depends-on-nodelist-order%s' % (name, ':full' if rfd else ''),
                                         '%s: output %d differs by %.3g between the default nodelist and the explicit nodelist (positions) %r'
                                         % (name, k, d, c3['nodelist_perm'])))
                    break
    ident = all(m[u] == u for u in m)
    return Result(fails, nontrivial=not ident, classes=[e.level, 'labels=' + type(case['bij']['new'][0]).__name__])


# ---------------------------------------------------------------------------
# simulators under table rules
# ---------------------------------------------------------------------------

@st.composite
def sim_case(draw):
    which = draw(st.sampled_from(['fast_nonMarkov_SIR', 'fast_nonMarkov_SIS', 'discrete_SIR']))
    if which == 'fast_nonMarkov_SIR':
        c = draw(c11.fpp_case())
    elif which == 'fast_nonMarkov_SIS':
        c = draw(c13.sis_case())
    else:
        c = draw(c12.table_case())
    c['which'] = which
    c['bij'] = draw(bijection(c['gc']['nodes']))
    return c


@st.composite
def sis_tie_case(draw):
    """fast_nonMarkov_SIS with coarse tables: many events at exactly the same instant.  The engine's outcome does not depend
    on the order in which simultaneous events are queued (measured: 0 differences in 35 000 generated relabellings of the
    pinned tree), so relabelling invariance is asserted here as well."""
    gc = draw(gen.graph_case(2, 6, labels=('int',), weighted=False,
                             family=draw(st.sampled_from(['random', 'complete', 'cycle', 'star', 'path']))))
    nodes, adj = oracles.adjacency(gc)
    pairs = [(u, v) for u in nodes for v in adj[u]]
    dur = [[draw(st.sampled_from([1.0, 2.0, 1.5])) for _ in range(draw(st.integers(1, 2)))] for _ in nodes]
    delays = []
    for _ in pairs:
        delays.append([sorted(set(draw(st.sampled_from([0.5, 1.0, 1.5, 2.0, 2.5, 3.0])) for _ in range(draw(st.integers(0, 3)))))
                       for _ in range(draw(st.integers(1, 2)))])
    I0, _ = draw(gen.initial_sets(gc['nodes'], allow_R=False, max_I=2))
    c = {'gc': gc, 'dur': dur, 'delays': delays, 'I0': I0, 'tmin': draw(st.sampled_from([0, 0, -2.0, 1.5])), 'api': 'two',
         'late': draw(st.booleans()), 'which': 'fast_nonMarkov_SIS', 'ties': True}
    c['tmax'] = c['tmin'] + draw(st.sampled_from([3, 5, 8]))
    c['bij'] = draw(bijection(gc['nodes']))
    return c


def transport(case):
    """the same case expressed on the relabelled graph (tables follow the nodes / ordered pairs)"""
    gc = case['gc']
    gc2, m = relabel_gc(gc, case['bij'])
    nodes1, adj1 = oracles.adjacency(gc)
    nodes2, adj2 = oracles.adjacency(gc2)
    inv = {v: k for k, v in m.items()}
    pairs1 = [(u, v) for u in nodes1 for v in adj1[u]]
    pairs2 = [(u, v) for u in nodes2 for v in adj2[u]]
    c2 = dict(case)
    c2['gc'] = gc2
    c2['I0'] = [m[oracles.tolabel(u)] for u in case['I0']]
    if 'R0' in case:
        c2['R0'] = [m[oracles.tolabel(u)] for u in case['R0']]
    if case['which'] == 'fast_nonMarkov_SIR':
        dur = dict(zip(nodes1, case['dur'])); dl = dict(zip(pairs1, case['delay']))
        c2['dur'] = [dur[inv[u]] for u in nodes2]
        c2['delay'] = [dl[(inv[u], inv[v])] for (u, v) in pairs2]
    elif case['which'] == 'fast_nonMarkov_SIS':
        dur = dict(zip(nodes1, case['dur'])); dl = dict(zip(pairs1, case['delays']))
        c2['dur'] = [dur[inv[u]] for u in nodes2]
        c2['delays'] = [dl[(inv[u], inv[v])] for (u, v) in pairs2]
    else:
        su = dict(zip(pairs1, case['succ']))
        c2['succ'] = [su[(inv[u], inv[v])] for (u, v) in pairs2]
        if case['durations']:
            du = dict(zip(nodes1, case['durations']))
            c2['durations'] = [du[inv[u]] for u in nodes2]
    return c2, m


def run_table_sim(case):
    """-> {node: (times, statuses)} from the full-data run"""
    import EoN
    which = case['which']
    nodes, adj = oracles.adjacency(case['gc'])
    if which == 'fast_nonMarkov_SIR':
        out = c11.run_sim(case, True, CallBudget(100000))
    elif which == 'fast_nonMarkov_SIS':
        pairs = [(u, v) for u in nodes for v in adj[u]]
        dur = dict(zip(nodes, case['dur'])); delays = dict(zip(pairs, case['delays']))
        count = {u: 0 for u in nodes}
        budget = CallBudget(200000)

        def rec(u):
            budget.tick()
            k = count[u]; count[u] += 1
            return dur[u][k % len(dur[u])]

        def trans(u, v, d):
            k = count[u] - 1
            return [x for x in delays[(u, v)][k % len(delays[(u, v)])] if x < d or case.get('late')]
        out = EoN.fast_nonMarkov_SIS(oracles.build_graph(case['gc']), trans_time_fxn=trans, rec_time_fxn=rec,
                                     initial_infecteds=[oracles.tolabel(u) for u in case['I0']], tmin=case['tmin'], tmax=case['tmax'],
                                     return_full_data=True)
    else:
        pairs = [(u, v) for u in nodes for v in adj[u]]
        success = dict(zip(pairs, case['succ']))
        tmax = float('inf') if case['tmax'] == 'inf' else case['tmax']
        kw = dict(initial_infecteds=[oracles.tolabel(u) for u in case['I0']], tmin=case['tmin'], tmax=tmax, return_full_data=True)
        single = case.get('single')         # documented: a single node may be given instead of a list (its label may be falsy, e.g. 0)
        if single and len(case['I0']) == 1:
            kw['initial_infecteds'] = oracles.tolabel(case['I0'][0])
        if case['R0']:
            kw['initial_recovereds'] = [oracles.tolabel(u) for u in case['R0']]
            if single and len(case['R0']) == 1:
                kw['initial_recovereds'] = oracles.tolabel(case['R0'][0])
        if case['durations']:
            durations = dict(zip(nodes, case['durations']))
            cnt = {}

            def test_recovery(u):
                cnt[u] = cnt.get(u, 0) + 1
                return cnt[u] >= durations[u]
            kw['test_recovery'] = test_recovery
        budget = CallBudget(100000)

        def tt(u, v):
            budget.tick()
            return success[(u, v)]
        out = EoN.discrete_SIR(oracles.build_graph(case['gc']), tt, **kw)
    return {u: ([float(x) for x in out.node_history(u)[0]], list(out.node_history(u)[1])) for u in nodes}


def prop_sim(case):
    which = case['which']
    if which == 'fast_nonMarkov_SIS' and not case.get('ties'):
        nodes, adj = oracles.adjacency(case['gc'])
        pairs = [(u, v) for u in nodes for v in adj[u]]
        _, coincide = c13.reference(nodes, adj, dict(zip(nodes, case['dur'])), dict(zip(pairs, case['delays'])),
                                    [oracles.tolabel(u) for u in case['I0']], case['tmin'], case['tmax'], late=bool(case.get('late')))
        if coincide:
            return Result([], classes=['discarded-coincidence'])
    c2, m = transport(case)
    fails = []
    try:
        h1 = run_table_sim(case)
    except Exception:
        return Result([], classes=['base-run-fails'])      # reported by C11/C12/C13
    try:
        h2 = run_table_sim(c2)
        for u in h1:
            a, b = h1[u], h2[m[u]]
            if which == 'fast_nonMarkov_SIR':
                # zero-length infections at the same instant may be represented either way; compare (status,time) sets
                a = sorted(zip(a[1], a[0])); b = sorted(zip(b[1], b[0]))
            if a != b:
                fails.append(Failure('%s:history-changes-under-relabelling' % which,
                                     'node %r has history %r, its image %r in the relabelled/reordered network has %r' % (u, h1[u], m[u], h2[m[u]])))
                break
    except RunawayError as e:
        fails.append(Failure('%s:relabelled:non-termination' % which, str(e)))
    except Exception as e:
        fails.append(Failure('%s:relabelled:exception:%s' % (which, exc_signature(e)), 'relabelled run raised %r' % (e,)))
    active = sum(1 for u in h1 if len(h1[u][0]) > 1)
    return Result(fails, nontrivial=active >= 2, classes=[which] + (['simultaneous-events'] if case.get('ties') else []))


def replay(ctx, sub, case):
    return {'ode': prop_ode, 'simulators': prop_sim}[sub](case).failures


def run(ctx):
    quick = ctx.tier == 'quick'
    ctx.rule = ('Hypothesis: (ode) every graph-taking analytic entry point (%d) on a graph with labels 0..n-1 (n<=10) and on its image under a '
                'generated bijection onto permuted ints / strings / tuples / mixed labels with shuffled node order, shuffled edge order and '
                'flipped edge orientation (initial sets transported): outputs equal within 1e-6 N, per-node / per-pair outputs mapped through the '
                'bijection. (simulators) fast_nonMarkov_SIR (delay/duration tables), fast_nonMarkov_SIS (distinct-time tables), discrete_SIR '
                '(success tables): per-node histories identical after mapping. Non-trivial: bijection is not the identity (simulators: >=2 nodes '
                'change status).' % len(WRAPPERS))
    ctx.assumptions = ['asserted on the closure-regular domain of C06', 'tolerance 1e-6 N (summation order changes rounding inside adaptive integrators)',
                       'for the SIR engine only node histories (not the tie-dependent infector) are compared']
    only = getattr(ctx, 'only', None)
    if not only or 'ode' in only:
        for nm in WRAPPERS:          # every entry point gets its share (a sampler over entry names spreads unevenly)
            run_hypothesis(ctx, 'ode', ode_case(nm), prop_ode, (30 if nm in NODE_LEVEL else 16) if quick else 500, rounds=3)
    if not only or 'simulators' in only:
        run_hypothesis(ctx, 'simulators', sim_case(), prop_sim, 2500 if quick else 30000)
        run_hypothesis(ctx, 'simulators', sis_tie_case(), prop_sim, 500 if quick else 10000)
