"""C06 - ODE outputs conserve the population and start from the requested state.

Hypothesis over ~50 analytic entry points (every *_from_graph wrapper, the node-level models, every direct solver
fed with hand-counted initial classes): graph n<=12 with an edge, tau/gamma incl. 0, rho or explicit (I0,R0), time
grid, return_full_data on/off.  Oracle: t == linspace (integer grid for the discrete EBCMs); S+I(+R) == N;
compartments in [0,N]; SIR monotone; row 0 == requested counts; with full data every auxiliary series at index 0 ==
independent hand count in its documented position; wrapper == direct solver on the same classes; no exception.
"""
import numpy as np
from hypothesis import strategies as st

from ..runner import Failure, Result, run_hypothesis, exc_signature
from .. import analytic_cases as ac, oracles

ID = 'C06'
LEVEL = 'exploration'


def expected_times(case, e):
    if e.discrete:
        if e.discrete == 'tmin0':
            return np.arange(0, case['dtmax'] - case['dtmin'] + 1, dtype=float)
        return np.arange(case['dtmin'], case['dtmax'] + 1, dtype=float)
    return np.linspace(case['tmin'], case['tmax'], case['tcount'])


def first_of(arr):
    a = np.asarray(arr)
    if a.ndim == 0:
        return a
    return a[..., 0]


def check_plain(case, e, ic, out, name):
    fails = []
    N = float(ic.N)
    sir = e.model == 'SIR'
    need = 4 if sir else 3
    if not isinstance(out, (tuple, list)) or len(out) < need:
        return [Failure(name + ':shape', 'returned %r values, expected %d series' % (len(out) if hasattr(out, '__len__') else out, need))]
    t = np.asarray(out[0], dtype=float)
    S, I = np.asarray(out[1], dtype=float), np.asarray(out[2], dtype=float)
    R = np.asarray(out[3], dtype=float) if sir else None
    wt = expected_times(case, e)
    if t.shape != wt.shape or np.max(np.abs(t - wt)) > 1e-12 * max(1.0, np.max(np.abs(wt))):
        fails.append(Failure(name + ':time-grid', 'times %r...; expected %r...' % (t[:4].tolist(), wt[:4].tolist())))
        return fails
    series = [S, I] + ([R] if sir else [])
    if any(x.shape != t.shape for x in series):
        return [Failure(name + ':shape', 'series shapes %r differ from times %r' % ([x.shape for x in series], t.shape))]
    if any(not np.all(np.isfinite(x)) for x in series):
        return [Failure(name + ':non-finite', 'NaN/inf in the returned compartments (S[:3]=%r I[:3]=%r)' % (S[:3].tolist(), I[:3].tolist()))]
    tot = S + I + (R if sir else 0)
    if np.max(np.abs(tot - N)) > 1e-6 * N:
        k = int(np.argmax(np.abs(tot - N)))
        fails.append(Failure(name + ':conservation', 'S+I%s = %r at t=%r, N=%r' % ('+R' if sir else '', tot[k], t[k], N)))
    for nm, x in zip('SIR', series):
        if np.min(x) < -1e-6 * N or np.max(x) > N * (1 + 1e-6):
            fails.append(Failure(name + ':range:' + nm, '%s ranges over [%r, %r], N=%r' % (nm, float(np.min(x)), float(np.max(x)), N)))
    if sir:
        if np.max(np.diff(S), initial=0) > 1e-7 * N:
            fails.append(Failure(name + ':S-increases', 'S increases by %r' % float(np.max(np.diff(S)))))
        if np.min(np.diff(R), initial=0) < -1e-7 * N:
            fails.append(Failure(name + ':R-decreases', 'R decreases by %r' % float(np.min(np.diff(R)))))
    want0 = [ic.S0, ic.I0] + ([ic.R0] if sir else [])
    got0 = [float(x[0]) for x in series]
    if any(abs(a - b) > 1e-9 * max(1.0, N) for a, b in zip(got0, want0)):
        fails.append(Failure(name + ':initial-counts:' + case['mode'] + (':with-R0' if ic.R0 > 0 and case['mode'] == 'sets' else ''),
                             'at tmin (S,I%s) = %r, requested %r' % (',R' if sir else '', got0, want0)))
    return fails


def check_full(case, e, ic, out, name):
    fails = []
    N = float(ic.N)
    wt = expected_times(case, e)
    try:
        t = np.asarray(out[0], dtype=float)
        if t.shape != wt.shape or np.max(np.abs(t - wt)) > 1e-12 * max(1.0, np.max(np.abs(wt))):
            return [Failure(name + ':full:time-grid', 'times %r...; expected %r...' % (t[:4].tolist(), wt[:4].tolist()))]
    except Exception as ex:
        return [Failure(name + ':full:shape', 'cannot read times from the full-data output: %r' % (ex,))]
    perm = case.get('nodelist_perm')
    for key, pos in e.layout.items():
        if key.startswith('_'):
            continue
        want = np.asarray(ac.expected_aux(ic, key), dtype=float)
        if perm and key in ('Ss', 'Is', 'Rs'):
            want = want[perm]                       # rows follow the caller's nodelist
        elif perm and key in ('XY', 'XX'):
            want = want[np.ix_(perm, perm)]
        if pos == 'any2d':
            ok = False
            for x in out[1:]:
                a = np.asarray(x)
                if a.ndim == 2 and a.shape[0] == want.shape[0] and a.shape[1] == len(wt) and np.max(np.abs(a[:, 0] - want)) <= 1e-9 * max(1.0, N):
                    ok = True
            if not ok:
                fails.append(Failure(name + ':full:missing:' + key, 'return_full_data=True: no returned 2-D series starts at the degree-class counts %s0=%r (got %d values of shapes %r)'
                                     % (key, want.tolist(), len(out), [np.asarray(x).shape for x in out])))
            continue
        if pos >= len(out):
            fails.append(Failure(name + ':full:missing:' + key, 'full-data output has %d entries, %s documented at position %d' % (len(out), key, pos)))
            continue
        try:
            got = np.asarray(first_of(out[pos]), dtype=float)
        except Exception as ex:
            fails.append(Failure(name + ':full:unreadable:' + key, 'position %d: %r' % (pos, ex)))
            continue
        if got.shape != want.shape or not np.all(np.isfinite(got)) or np.max(np.abs(got - want), initial=0) > 1e-9 * max(1.0, N):
            # is it some other documented series (swapped)?
            other = None
            for k2 in e.layout:
                if k2 != key and not k2.startswith('_'):
                    w2 = np.asarray(ac.expected_aux(ic, k2), dtype=float)
                    if w2.shape == got.shape and np.max(np.abs(got - w2), initial=0) <= 1e-9 * max(1.0, N):
                        other = k2
            fails.append(Failure(name + ':full:initial:' + key + (':holds-' + other if other else '') + ':' + case['mode'],
                                 'return_full_data=True: series documented as %s (position %d) starts at %r; hand count of the requested initial state gives %r%s'
                                 % (key, pos, np.round(got, 6).tolist() if got.size <= 30 else got.shape, np.round(want, 6).tolist() if want.size <= 30 else want.shape,
                                    ' (it starts at the %s count instead)' % other if other else '')))
    return fails


def prop_entry(case):
    import EoN
    e = ac.ENTRIES[case['entry']]
    ic = ac.make_ic(case)
    name = e.name
    in_domain = ic.regular_domain() and not (e.singular and e.singular(ic))
    fails = []
    classes = [e.level, 'mode=' + case['mode']] + (['with-R0'] if case['mode'] == 'sets' and ic.R0 > 0 else [])
    plain = None
    for rfd in (False, True):
        mode = 'full' if rfd else 'plain'
        try:
            with np.errstate(all='ignore'):
                out, _ = ac.call_entry(case, rfd, ic=ic)
        except Exception as ex:
            if in_domain:
                fails.append(Failure('%s:%s:exception:%s:%s' % (name, mode, type(ex).__name__, case['mode']),
                                     '%s raised %r for a consistent initial condition (mode %s, I0=%r R0=%r rho=%r)'
                                     % (name, ex, case['mode'], case['I0'], case['R0'], case['rho'] if case['mode'] == 'rho' else None)))
            else:
                classes.append('singular:' + type(ex).__name__)
            continue
        if not in_domain:
            classes.append('singular:executed')
            # outside the closure-regular domain nothing is asserted about the evolution (0/0 in the closures), but the state
            # reported AT tmin is the requested one whatever happens later (e.g. rho=0: S=N, I=0)
            if not rfd:
                try:
                    sir = e.model == 'SIR'
                    series = [np.asarray(out[k], dtype=float) for k in range(1, 4 if sir else 3)]
                    got0 = [float(x[0]) for x in series]
                    want0 = [ic.S0, ic.I0] + ([ic.R0] if sir else [])
                    if all(np.isfinite(got0)) and any(abs(a - b) > 1e-9 * max(1.0, ic.N) for a, b in zip(got0, want0)):
                        fails.append(Failure(name + ':initial-counts:' + case['mode'] + ':degenerate-state',
                                             'at tmin (S,I%s) = %r, requested %r (rho=%r I0=%r R0=%r)' % (',R' if sir else '', got0, want0,
                                                                                                       case['rho'] if case['mode'] == 'rho' else None, case['I0'], case['R0'])))
                except Exception:
                    pass
            continue
        if not rfd:
            fails += check_plain(case, e, ic, out, name)
            plain = out
        else:
            fails += check_full(case, e, ic, out, name)
    # wrapper vs direct solver on hand-counted classes
    direct = name.replace('_from_graph', '')
    if in_domain and plain is not None and e.level == 'wrapper' and direct != name and direct in ac.ENTRIES and case['mode'] in ac.ENTRIES[direct].modes and not fails:
        c2 = dict(case)
        c2['entry'] = direct
        try:
            with np.errstate(all='ignore'):
                out2, _ = ac.call_entry(c2, False)
            n_series = 4 if e.model == 'SIR' else 3
            for k in range(1, n_series):
                a, b = np.asarray(plain[k], dtype=float), np.asarray(out2[k], dtype=float)
                if a.shape != b.shape or np.max(np.abs(a - b)) > 1e-6 * ic.N:
                    fails.append(Failure('%s:differs-from-direct-solver:%s' % (name, case['mode']),
                                         '%s and %s on the hand-counted classes of the same graph differ in series %d by %r'
                                         % (name, direct, k, float(np.max(np.abs(a - b))) if a.shape == b.shape else 'shape')))
                    break
        except Exception as ex:
            pass   # the direct solver's own failures are reported when it is the generated entry
    if case.get('nodelist_perm'):
        classes.append('explicit-nodelist')
    nt = in_domain and ((case['mode'] == 'sets' and ic.R0 > 0) or case['tmin'] != 0 or bool(e.layout))
    return Result(fails, nontrivial=nt, classes=classes + ([] if in_domain else ['outside-asserted-domain']))


# ---------------------------------------------------------------------------
# very large populations (the library is meant for 1e5-1e6 nodes): consistency tests that compare pair counts with
# <k>N must survive the rounding of numbers of order 1e6.  Aggregated models only (their ODE dimension depends on the
# number of distinct degrees, not on N); the graph - a union of cliques of two sizes - is rebuilt from four integers.
# ---------------------------------------------------------------------------

HUGE = sorted(n for n, e in ac.ENTRIES.items() if e.level == 'wrapper' and 'sets' in e.modes and not e.discrete
              and 'individual' not in n and 'pair_based' not in n)


def huge_gc(a, s1, b, s2):
    edges, start = [], 0
    for cnt, sz in ((a, s1), (b, s2)):
        for _ in range(cnt):
            edges += [[start + i, start + j] for i in range(sz) for j in range(i + 1, sz)]
            start += sz
    return {'nodes': list(range(start)), 'edges': edges, 'ew': None, 'nw': None, 'directed': False}


def huge_cases(seed, name, count):
    """Explicit cases from a PRNG that is a pure function of (VERIF_SEED, entry point): Hypothesis always spends its first
    example on the minimal case, which matters when a case costs 8 s and only one per entry point is affordable."""
    import random, zlib
    R = random.Random(seed * 1000003 + zlib.crc32(name.encode()))
    for _ in range(count):
      adverse = R.randint(0, 3) > 0
      for _attempt in range(10):
        s1, s2 = R.randint(8, 13), R.randint(3, 6)
        a = -(-1080000 // (s1 * (s1 - 1))) + R.randint(0, 800)          # 2M > 2^20: one ulp of <k>N is 2.3e-10
        b = R.randint(100, 3000)

        def shortfall(ab):
            # <k>N evaluated naively in floats (degree histogram / N, then sum k P(k), then * N) against the exact 2M: the
            # initial state below sits exactly on the bound [SS]+2[SI] == 2M, so the most adverse rounding is the interesting
            # one (for most sizes the float result is exact, which exercises nothing)
            a_, b_ = ab
            N_ = a_ * s1 + b_ * s2
            n_ = (s1 - 1) * (a_ * s1 / float(N_)) + (s2 - 1) * (b_ * s2 / float(N_))
            return (a_ * s1 * (s1 - 1) + b_ * s2 * (s2 - 1)) - n_ * N_
        if not adverse:
            break
        a, b = max([(a + i, b + j) for i in range(200) for j in (0, 1, 2, 3, 5, 8, 13)], key=shortfall)
        if shortfall((a, b)) > 0:
            break               # otherwise these clique sizes never round adversely: try others
      if True:
        N = a * s1 + b * s2
        pick = R.choice(['first', 'last', 'two'])
        I0 = {'first': [0], 'last': [N - 1], 'two': [0, N - 1]}[pick]
        tmin = R.choice([0, 2.0])
        yield {'entry': name, 'huge': [a, s1, b, s2], 'mode': 'sets', 'I0': I0, 'R0': [], 'I0form': 'list', 'R0form': 'list',
               'tau': R.choice([0.5, 1.0]), 'gamma': R.choice([0.5, 1.0]), 'rho': 0.1, 'p': 0.5,
               'tmin': tmin, 'tmax': tmin + 0.1, 'tcount': 3, 'dtmin': 0, 'dtmax': 2, 'float_Ks': False}


def prop_huge(case):
    c = dict(case)
    c['gc'] = huge_gc(*case['huge'])
    res = prop_entry(c)
    return Result(res.failures, nontrivial=not res.failures or True, classes=['huge', case['entry']])


def replay(ctx, sub, case):
    if 'huge' in case:
        return prop_huge(case).failures
    return prop_entry(case).failures


def run(ctx):
    quick = ctx.tier == 'quick'
    names = sorted(ac.ENTRIES)
    ctx.rule = ('Hypothesis per entry point (%d entry points: graph wrappers, node-level models, direct solvers fed with hand-counted '
                'classes): graph 2<=n<=12 with an edge (smaller for N^2-variable models), tau/gamma in {0,.5,1,2} or [0.05,3], rho or explicit '
                'disjoint (I0,R0), tmin in {0,-1.5,2}, tmax-tmin in {1,2.5,5}, tcount in {2,3,6,11}, both return modes. Closure-singular '
                'initial states (no S, no I, no S-S pair or no S-I pair; zero degree variance for SIS super-compact) are executed, '
                'tallied, not asserted. Non-trivial: asserted-domain case with (R0 non-empty or tmin != 0 or auxiliary series checked).'
                % len(names))
    ctx.assumptions = ['tolerances: conservation/range 1e-6 N, monotonicity 1e-7 N, initial values 1e-9 N, wrapper-vs-direct 1e-6 N',
                       'documented positions of auxiliary series are taken from the docstrings where wrapper and solver agree; '
                       'for SIR_heterogeneous_meanfield (contradictory docstrings) only the presence of the S_k series is required']
    per = 60 if quick else 400
    only = getattr(ctx, 'only', None)
    for nm in names:
        if only and nm not in only:
            continue
        run_hypothesis(ctx, nm, ac.analytic_case(names=[nm], weights=True), prop_entry, per, rounds=4)
    if not only or 'huge' in only:
        from ..runner import run_cases
        for nm in HUGE:
            run_cases(ctx, 'huge', huge_cases(ctx.seed, nm, 1 if quick else 6), prop_huge, case_timeout=600)
