"""C08 - ODE models are exact where theory says so: trees, final sizes, limits.

(i)   every non-isomorphic tree on <=6 nodes (quick; <=7 thorough) x seed placements x optional R0 x
      {unweighted, edge+node weighted with label in {'weight','tw'}}: SIR_pair_based_pure_IC == exact expectation
      of S,I,R from the 3^N master equation (own generator, matrix exponential).  Control: a triangle must differ.
(ii)  Attack_rate_cts_time == lim R/N of EBCM; Attack_rate_discrete == lim of EBCM_discrete with R(t+1)=R(t)+I(t);
      the *_from_graph variants equal the direct ones.  Limits taken at T and 2T, iterations K and 2K; cases whose
      two evaluations differ by >1e-9 are inconclusive (counted, not asserted).
(iii) tau=0 => I(t)=I(0)exp(-gamma t) and S constant for every model; gamma=0 => S_SIS(t)=S_SIR(t) for every
      model pair except super-compact.
"""
import itertools
import numpy as np
import networkx as nx
from hypothesis import strategies as st

from ..runner import Failure, Result, run_hypothesis, run_cases, exc_signature
from .. import analytic_cases as ac, oracles, gen

ID = 'C08'
LEVEL = 'exploration'


# ---------------------------------------------------------------------------
# (i) trees
# ---------------------------------------------------------------------------

def exact_expectation(gc, I0, R0, tau, gamma, ewl, nwl, times):
    nodes, adj = oracles.adjacency(gc)
    ew = oracles.edge_weight_fn(gc, ewl)
    nw = oracles.node_weight_fn(gc, nwl)
    init = {u: 'S' for u in nodes}
    for u in I0:
        init[u] = 'I'
    for u in R0:
        init[u] = 'R'
    ch = oracles.Chain(nodes, init, lambda s: oracles.sir_events(s, adj, tau, gamma, ew, nw))
    from scipy.linalg import expm
    Q = ch.generator()
    dt = times[1] - times[0]
    P = expm(Q * dt)
    p = np.zeros(len(ch.states)); p[0] = 1.0
    cnt = {s: np.array([sum(1 for u in nodes if stt[u] == s) for stt in ch.states], dtype=float) for s in 'SIR'}
    out = {s: [] for s in 'SIR'}
    for _ in times:
        for s in 'SIR':
            out[s].append(float(p.dot(cnt[s])))
        p = p.dot(P)
    return {s: np.array(v) for s, v in out.items()}


def tree_cases(nmax, quick):
    pool = [2.0, 0.5, 3.0, 1.0, 0.25, 1.5]
    for n in range(2, nmax + 1):
        for ti, T in enumerate(nx.nonisomorphic_trees(n)):
            edges = [list(e) for e in T.edges()]
            seeds = [[u] for u in range(n)]
            seeds += [list(c) for c in itertools.combinations(range(n), 2)][:: (3 if quick else 1)]
            for si, I0 in enumerate(seeds):
                for wmode in (None, 'weight', 'tw'):
                    if quick and wmode == 'tw' and (si + ti) % 2:
                        continue
                    R0s = [[]]
                    rest = [u for u in range(n) if u not in I0]
                    if rest and (not quick or (si + ti) % 3 == 0):
                        R0s.append([rest[-1]])
                    for R0 in R0s:
                        labels = ['v%d' % ((i * 5 + 3) % n) if (ti + si) % 2 else (i * 7 + 2) % n for i in range(n)] if n in (5, 7) else list(range(n))
                        if len(set(labels)) != n:
                            labels = list(range(n))
                        gc = {'nodes': [labels[i] for i in range(n)], 'edges': [[labels[a], labels[b]] for a, b in edges],
                              'ew': {wmode: [pool[(i + ti) % 6] for i in range(len(edges))]} if wmode else None,
                              'nw': {'rw': [pool[(i + si + 2) % 6] for i in range(n)]} if wmode else None}
                        yield {'gc': gc, 'I0': [labels[u] for u in I0], 'R0': [labels[u] for u in R0], 'tau': 1.0 if ti % 2 else 0.6,
                               'gamma': 1.0 if si % 2 else 0.7, 'ew': wmode, 'nw': 'rw' if wmode else None, 'T': 3.0, 'tcount': 13}


def stiff_tree_cases(quick):
    """weighted trees whose rates span more than three orders of magnitude, read out on a coarse grid over a long horizon: the
    integrator has to take many internal steps per report interval"""
    shapes = [[(0, 1), (1, 2), (1, 3), (3, 4)], [(0, 1), (0, 2), (0, 3), (0, 4)], [(0, 1), (1, 2), (2, 3)], [(0, 1), (1, 2), (2, 3), (3, 4)]]
    for k, edges in enumerate(shapes if not quick else shapes[:3]):
        n = max(max(e) for e in edges) + 1
        nw = [0.02, 1.0, 0.5, 60.0, 2.0][:n]
        ew = [1.0, 2.0, 0.5, 3.0][:len(edges)]
        for tau, gamma, T in ((0.03, 1.0, 300.0), (20.0, 0.05, 200.0)):
            gc = {'nodes': list(range(n)), 'edges': [list(e) for e in edges], 'ew': {'tw': ew[k % 2:] + ew[:k % 2]}, 'nw': {'rw': nw[k:] + nw[:k]}}
            yield {'gc': gc, 'I0': [1 if n > 1 else 0], 'R0': [], 'tau': tau, 'gamma': gamma, 'ew': 'tw', 'nw': 'rw', 'T': T, 'tcount': 7, 'stiff': True}


def prop_tree(case):
    import EoN
    gc = case['gc']
    G = oracles.build_graph(gc)
    nodes = [oracles.tolabel(u) for u in gc['nodes']]
    I0 = [oracles.tolabel(u) for u in case['I0']]
    R0 = [oracles.tolabel(u) for u in case['R0']]
    times = np.linspace(0, case['T'], case['tcount'])
    exact = exact_expectation(gc, I0, R0, case['tau'], case['gamma'], case['ew'], case['nw'], times)
    N = len(nodes)
    fails = []
    tol = case.get('tol', 2e-6) * N
    kw = dict(tmin=0, tmax=case['T'], tcount=case['tcount'])
    if case['ew']:
        kw['transmission_weight'] = case['ew']
        kw['recovery_weight'] = case['nw']
    if R0:
        kw['initial_recovereds'] = list(R0)
    try:
        t, S, I, R = EoN.SIR_pair_based_pure_IC(G, case['tau'], case['gamma'], list(I0), **kw)
        for nm, got in (('S', S), ('I', I), ('R', R)):
            d = float(np.max(np.abs(np.asarray(got) - exact[nm])))
            if not np.isfinite(d) or d > tol:
                j = int(np.argmax(np.abs(np.asarray(got) - exact[nm])))
                lab = ':edge-attribute-named-weight' if case['ew'] == 'weight' else (':weighted' if case['ew'] else '')
                fails.append(Failure('SIR_pair_based_pure_IC:not-exact-on-tree' + lab,
                                     'tree %r, I0=%r R0=%r weights=%r: %s(t=%.3g)=%.8g, master equation gives %.8g (max deviation %.3g > %.3g)'
                                     % (gc['edges'], I0, R0, case['ew'], nm, times[j], float(got[j]), exact[nm][j], d, tol)))
                break
    except Exception as e:
        fails.append(Failure('SIR_pair_based_pure_IC:exception:%s' % exc_signature(e), 'raised %r' % (e,)))
    nodes_, adj = oracles.adjacency(gc)
    nonleaf = any(len(adj[u]) >= 2 for u in I0)
    return Result(fails, nontrivial=N >= 4 and (nonleaf or bool(case['ew'])),
                  classes=['n=%d' % N] + (['weighted:' + case['ew']] if case['ew'] else ['unweighted']) + (['R0'] if R0 else []) + (['stiff'] if case.get('stiff') else []))


def triangle_control():
    """the closure is NOT exact on a triangle: the check must be able to see a difference (guards against a vacuous oracle)"""
    import EoN
    gc = {'nodes': [0, 1, 2], 'edges': [[0, 1], [1, 2], [0, 2]], 'ew': None, 'nw': None}
    times = np.linspace(0, 3.0, 13)
    exact = exact_expectation(gc, [0], [], 1.0, 1.0, None, None, times)
    t, S, I, R = EoN.SIR_pair_based_pure_IC(oracles.build_graph(gc), 1.0, 1.0, [0], tmin=0, tmax=3.0, tcount=13)
    return float(np.max(np.abs(np.asarray(S) - exact['S'])))


# ---------------------------------------------------------------------------
# (ii) final sizes
# ---------------------------------------------------------------------------

@st.composite
def final_case(draw):
    c = draw(ac.analytic_case(names=['EBCM_from_graph'], nmax=14, modes=('rho', 'sets'), labels=('int', 'str'),
                              rates=st.one_of(st.sampled_from([0.5, 1.0, 2.0]), st.floats(0.2, 3.0, allow_nan=False)), depletion_cap=None))
    c['p'] = draw(st.sampled_from([0.2, 0.4, 0.6, 0.8, 0.95]))
    return c


def prop_final(case):
    import EoN
    ic = ac.make_ic(case)
    if ic.twoM == 0 or ic.S0 <= 0 or (case['mode'] == 'sets' and ic.SX0 <= 0):
        return Result([], classes=['singular'])
    if (case['mode'] == 'sets' and ic.SI0 <= 0) or (case['mode'] == 'rho' and not case['rho'] > 0):
        # no susceptible node has an infected neighbour (e.g. only isolated nodes are infected): the ODE stays where it is, while
        # Attack_rate_* is documented to return the root 'assuming an epidemic happens' - two different questions, nothing to compare
        return Result([], classes=['no-S-I-edge'])
    N = float(ic.N)
    fails = []
    incon = None
    Pk = ic.Pk()
    G = oracles.build_graph(case['gc'])
    tau, gamma, p = case['tau'], case['gamma'], case['p']
    ph, php, _ = ac.psi_fns(ic)
    sk = {k: (ic.Sk0[k] / ic.Nk[k]) for k in Pk}
    # ---- continuous time ----
    try:
        def lim(T):
            t, S, I, R = EoN.EBCM(N, ph, php, tau, gamma, ic.phiS0, phiR0=ic.phiR0, R0=ic.R0, tmin=0, tmax=T, tcount=3)
            return float(R[-1] + I[-1]) / N, float(I[-1]) / N
        T = 60.0 / min(gamma, 1.0)
        a1, i1 = lim(T)
        a2, i2 = lim(2 * T)
        ar1 = EoN.Attack_rate_cts_time(Pk, tau, gamma, number_its=400, Sk0=sk, phiS0=ic.phiS0, phiR0=ic.phiR0)
        ar2 = EoN.Attack_rate_cts_time(Pk, tau, gamma, number_its=800, Sk0=sk, phiS0=ic.phiS0, phiR0=ic.phiR0)
        # Attack_rate returns 1 - psihat(omega) = fraction not susceptible at the end (includes initially I and R)
        if abs(a1 - a2) > 1e-9 or abs(ar1 - ar2) > 1e-9 or i2 > 1e-9:
            incon = 'critical-slowing-down'
        elif abs(ar2 - a2) > 1e-6:
            fails.append(Failure('Attack_rate_cts_time:differs-from-EBCM-limit',
                                 'Attack_rate_cts_time=%.9g but EBCM t->inf gives (I+R)/N=%.9g (R0/N=%.4g); tau=%r gamma=%r Pk=%r mode=%s'
                                 % (ar2, a2, ic.R0 / N, tau, gamma, Pk, case['mode'])))
        if case['mode'] == 'rho':
            ar3 = EoN.Attack_rate_cts_time(Pk, tau, gamma, number_its=800, rho=case['rho'])
            if abs(ar3 - ar2) > 1e-9:
                fails.append(Failure('Attack_rate_cts_time:rho-form-differs', 'rho=%r gives %.9g, the equivalent Sk0/phiS0 form %.9g' % (case['rho'], ar3, ar2)))
    except Exception as e:
        fails.append(Failure('Attack_rate_cts_time:exception:%s' % exc_signature(e), 'raised %r' % (e,)))
    # from-graph variant
    try:
        kw = {'rho': case['rho']} if case['mode'] == 'rho' else {'initial_infecteds': list(ic.I0nodes), 'initial_recovereds': list(ic.R0nodes)}
        arg = EoN.Attack_rate_cts_time_from_graph(G, tau, gamma, number_its=800, **kw)
        if incon is None and not fails and abs(arg - ar2) > 1e-7:
            fails.append(Failure('Attack_rate_cts_time_from_graph:differs-from-direct:' + case['mode'],
                                 'from_graph gives %.9g, Attack_rate_cts_time on the hand-counted classes %.9g' % (arg, ar2)))
    except Exception as e:
        fails.append(Failure('Attack_rate_cts_time_from_graph:exception:%s:%s' % (type(e).__name__, case['mode']),
                             'Attack_rate_cts_time_from_graph raised %r (mode %s)' % (e, case['mode'])))
    # ---- discrete time ----
    try:
        def limd(T):
            t, S, I, R = EoN.EBCM_discrete(N, ph, php, p, ic.phiS0, phiR0=ic.phiR0, R0=ic.R0, tmin=0, tmax=T)
            step = float(np.max(np.abs(np.asarray(R[1:]) - (np.asarray(R[:-1]) + np.asarray(I[:-1])))))
            return float(R[-1] + I[-1]) / N, float(I[-1]) / N, step
        d1, j1, s1 = limd(400)
        d2, j2, s2 = limd(800)
        if s2 > 1e-9 * N:
            fails.append(Failure('EBCM_discrete:R-recursion', 'R(t+1) != R(t)+I(t): max deviation %.3g' % s2))
        ad1 = EoN.Attack_rate_discrete(Pk, p, Sk0=sk, phiS0=ic.phiS0, phiR0=ic.phiR0, number_its=400)
        ad2 = EoN.Attack_rate_discrete(Pk, p, Sk0=sk, phiS0=ic.phiS0, phiR0=ic.phiR0, number_its=800)
        if abs(d1 - d2) > 1e-9 or abs(ad1 - ad2) > 1e-9 or j2 > 1e-9:
            incon = incon or 'critical-slowing-down'
        elif abs(ad2 - d2) > 1e-7:
            fails.append(Failure('Attack_rate_discrete:differs-from-EBCM_discrete-limit',
                                 'Attack_rate_discrete=%.9g but EBCM_discrete t->inf gives (I+R)/N=%.9g; p=%r Pk=%r mode=%s' % (ad2, d2, p, Pk, case['mode'])))
        try:
            kw = {'rho': case['rho']} if case['mode'] == 'rho' else {'initial_infecteds': list(ic.I0nodes), 'initial_recovereds': list(ic.R0nodes)}
            adg = EoN.Attack_rate_discrete_from_graph(G, p, number_its=800, **kw)
            if abs(adg - ad2) > 1e-7 and abs(ad1 - ad2) <= 1e-9:
                fails.append(Failure('Attack_rate_discrete_from_graph:differs-from-direct:' + case['mode'],
                                     'from_graph gives %.9g, Attack_rate_discrete on the hand-counted classes %.9g' % (adg, ad2)))
        except Exception as e:
            fails.append(Failure('Attack_rate_discrete_from_graph:exception:%s:%s' % (type(e).__name__, case['mode']),
                                 'Attack_rate_discrete_from_graph raised %r (mode %s)' % (e, case['mode'])))
    except Exception as e:
        fails.append(Failure('Attack_rate_discrete:exception:%s' % exc_signature(e), 'raised %r' % (e,)))
    # ---- documented default of phiS0: degree-dependent Sk0 given, phiS0 omitted = 'initial introduction randomly introduced',
    #      i.e. a neighbour is susceptible with the size-biased probability sum_k k P(k) Sk0[k] / <K> (nobody recovered) ----
    if incon is None and not fails and len(Pk) >= 2:
        try:
            kmax = max(Pk)
            base = case['rho'] if case['rho'] > 0 else 0.1
            sk_dd = {k: 1.0 - min(0.9, base * 2.0 * (k + 1) / (kmax + 1)) for k in Pk}       # hubs preferentially infected
            kave = sum(k * Pk[k] for k in Pk)

            def ph_dd(x):
                x = np.asarray(x, dtype=float)
                return sum(Pk[k] * sk_dd[k] * x ** k for k in Pk)

            def php_dd(x):
                x = np.asarray(x, dtype=float)
                return sum(k * Pk[k] * sk_dd[k] * x ** (k - 1) for k in Pk if k >= 1)
            phiS_dd = float(php_dd(1.0)) / kave

            def lim_c(T):
                t, S, I, R = EoN.EBCM(N, ph_dd, php_dd, tau, gamma, phiS_dd, phiR0=0, R0=0, tmin=0, tmax=T, tcount=3)
                return float(R[-1] + I[-1]) / N, float(I[-1]) / N

            def lim_d(T):
                t, S, I, R = EoN.EBCM_discrete(N, ph_dd, php_dd, p, phiS_dd, phiR0=0, R0=0, tmin=0, tmax=T)
                return float(R[-1] + I[-1]) / N, float(I[-1]) / N
            T = 60.0 / min(gamma, 1.0)
            (c1, _), (c2, ci) = lim_c(T), lim_c(2 * T)
            (e1, _), (e2, ei) = lim_d(400), lim_d(800)
            g1 = EoN.Attack_rate_cts_time(Pk, tau, gamma, number_its=400, Sk0=dict(sk_dd))
            g2 = EoN.Attack_rate_cts_time(Pk, tau, gamma, number_its=800, Sk0=dict(sk_dd))
            h1 = EoN.Attack_rate_discrete(Pk, p, Sk0=dict(sk_dd), number_its=400)
            h2 = EoN.Attack_rate_discrete(Pk, p, Sk0=dict(sk_dd), number_its=800)
            if abs(c1 - c2) <= 1e-9 and abs(g1 - g2) <= 1e-9 and ci <= 1e-9 and abs(g2 - c2) > 1e-6:
                fails.append(Failure('Attack_rate_cts_time:default-phiS0',
                                     'degree-dependent Sk0=%r, phiS0 omitted: Attack_rate_cts_time=%.9g, EBCM limit with phi_S(0)=sum k P(k) Sk0[k]/<K>=%.6g gives %.9g'
                                     % (sk_dd, g2, phiS_dd, c2)))
            if abs(e1 - e2) <= 1e-9 and abs(h1 - h2) <= 1e-9 and ei <= 1e-9 and abs(h2 - e2) > 1e-7:
                fails.append(Failure('Attack_rate_discrete:default-phiS0',
                                     'degree-dependent Sk0=%r, phiS0 omitted: Attack_rate_discrete=%.9g, EBCM_discrete limit with phi_S(0)=sum k P(k) Sk0[k]/<K>=%.6g gives %.9g'
                                     % (sk_dd, h2, phiS_dd, e2)))
        except Exception as e:
            fails.append(Failure('Attack_rate:default-phiS0:exception:%s' % exc_signature(e), 'raised %r' % (e,)))
    # ---- small-rho limit (rho omitted): the returned value is the largest-epidemic root of theta = 1-T + T psi'(theta)/<k>, found here by
    #      bracketing (brentq) instead of fixed-point sweeps; a generous number_its lets the sweeps converge even close to the threshold ----
    classes_extra = []
    if not fails and len(Pk) >= 1 and ic.kave > 0:
        try:
            from scipy.optimize import brentq
            kave = sum(k * Pk[k] for k in Pk)

            def root_attack(T):
                psi_ = lambda x: sum(Pk[k] * x ** k for k in Pk)
                psip_ = lambda x: sum(k * Pk[k] * x ** (k - 1) for k in Pk if k >= 1)
                h = lambda x: x - (1 - T + T * psip_(x) / kave)
                R0_ = T * sum(k * (k - 1) * Pk[k] for k in Pk) / kave
                if R0_ <= 1 + 1e-9:
                    return None, R0_
                hi = 1 - 1e-7
                if h(0.0) >= 0 or h(hi) <= 0:
                    return None, R0_
                return 1 - psi_(brentq(h, 0.0, hi, xtol=1e-15, rtol=1e-15, maxiter=500)), R0_
            for nm, T, call in (('Attack_rate_discrete', p, lambda its: EoN.Attack_rate_discrete(Pk, p, number_its=its)),
                                ('Attack_rate_cts_time', tau / (tau + gamma), lambda its: EoN.Attack_rate_cts_time(Pk, tau, gamma, number_its=its))):
                want, R0_ = root_attack(T)
                if want is None:
                    continue
                its = 4000 if R0_ > 1.2 else 60000
                got_a, got_b = call(its), call(2 * its)
                if R0_ < 1.2:
                    classes_extra.append('near-threshold')
                if abs(got_a - got_b) <= 1e-9 and abs(got_b - want) > 1e-6:
                    fails.append(Failure('%s:small-rho-limit' % nm, '%s(rho omitted, number_its=%d) = %.9g; the epidemic root of the final-size relation gives %.9g (R0=%.4g, Pk=%r)'
                                         % (nm, 2 * its, got_b, want, R0_, Pk)))
        except Exception as e:
            fails.append(Failure('Attack_rate:small-rho-limit:exception:%s' % exc_signature(e), 'raised %r' % (e,)))
    ar = locals().get('ar2', 0)
    return Result(fails, nontrivial=0.02 < ar < 0.98, classes=['mode=' + case['mode']] + sorted(set(classes_extra)) + (['inconclusive'] if incon else []), inconclusive=incon)


# ---------------------------------------------------------------------------
# (iii) limiting cases
# ---------------------------------------------------------------------------

PAIRS = [(n, n.replace('SIS', 'SIR', 1)) for n in ac.ENTRIES if n.startswith('SIS') and 'super_compact' not in n and '[' not in n
         and n.replace('SIS', 'SIR', 1) in ac.ENTRIES]


TAU0 = sorted(n for n, e in ac.ENTRIES.items() if not e.discrete and 'pref_mix' not in n and '[' not in n)


@st.composite
def limit_case(draw, which=None, name=None):
    which = which or draw(st.sampled_from(['tau0', 'gamma0']))
    if which == 'tau0':
        name = name or draw(st.sampled_from(TAU0))
        c = draw(ac.analytic_case(names=[name], nmax=9))
        c['tau'] = 0.0
        c['gamma'] = draw(st.sampled_from([0.5, 1.0, 2.0, 0.3]))
        c['tcount'] = 6
    else:
        a, b = name or draw(st.sampled_from(sorted(PAIRS)))
        c = draw(ac.analytic_case(names=[a], nmax=9))
        c['gamma'] = 0.0
        c['tau'] = draw(st.sampled_from([0.3, 0.5, 1.0, 2.0]))
        c['R0'] = []
        c['partner'] = b
        c['tcount'] = 6
        nodes_, adj_ = oracles.adjacency(c['gc'])
        kmax = max(len(adj_[u]) for u in nodes_)
        c['tmax'] = c['tmin'] + min(c['tmax'] - c['tmin'], 3.0 / (c['tau'] * kmax))
    c['which'] = which
    if ('individual_based' in c['entry'] or 'pair_based' in c['entry']) and '[' not in c['entry'] and draw(st.booleans()):
        c['nodelist_perm'] = list(draw(st.permutations(list(range(len(c['gc']['nodes']))))))   # explicit nodelist in another order
    return c


def prop_limit(case):
    e = ac.ENTRIES[case['entry']]
    ic = ac.make_ic(case)
    if not ic.regular_domain() or (e.singular and e.singular(ic)):
        return Result([], classes=['singular'])
    N = float(ic.N)
    fails = []
    try:
        with np.errstate(all='ignore'):
            out, _ = ac.call_entry(case, False, ic=ic)
        t = np.asarray(out[0], dtype=float)
        S, I = np.asarray(out[1], dtype=float), np.asarray(out[2], dtype=float)
        if case['which'] == 'tau0':
            want = ic.I0 * np.exp(-case['gamma'] * (t - t[0]))
            if np.max(np.abs(I - want)) > 1e-5 * N:
                fails.append(Failure('%s:tau=0:I-not-exponential' % e.name, 'tau=0: I(t)=%r, I(0)exp(-gamma t)=%r' % (np.round(I, 6).tolist(), np.round(want, 6).tolist())))
            if e.model == 'SIR' and np.max(np.abs(S - S[0])) > 1e-5 * N:
                fails.append(Failure('%s:tau=0:S-not-constant' % e.name, 'tau=0: S(t)=%r' % (np.round(S, 6).tolist(),)))
        else:
            c2 = dict(case)
            c2['entry'] = case['partner']
            with np.errstate(all='ignore'):
                out2, _ = ac.call_entry(c2, False)
            S2 = np.asarray(out2[1], dtype=float)
            if S.shape != S2.shape or np.max(np.abs(S - S2)) > 1e-4 * N:
                fails.append(Failure('%s:gamma=0:S-differs-from-%s' % (e.name, case['partner']),
                                     'gamma=0: S_SIS(t)=%r, S_SIR(t)=%r' % (np.round(S, 6).tolist(), np.round(S2, 6).tolist())))
    except Exception as ex:
        fails.append(Failure('%s:%s:exception:%s' % (e.name, case['which'], exc_signature(ex)), 'raised %r' % (ex,)))
    return Result(fails, nontrivial=True, classes=[case['which']])


def replay(ctx, sub, case):
    return {'trees': prop_tree, 'final-size': prop_final, 'limits': prop_limit}[sub](case).failures


def run(ctx):
    quick = ctx.tier == 'quick'
    nmax = 6 if quick else 7
    ctx.rule = ('(trees) every non-isomorphic tree with 2..%d nodes x every single seed and a sample of 2-seed placements x optional R0 x '
                '{unweighted, weights under label "weight", weights under label "tw"} (quick: thinned): SIR_pair_based_pure_IC vs exact 3^N master-equation '
                'expectation at 13 times, tol 2e-6 N; a triangle control must differ by >1e-2. Non-trivial: >=4 nodes and (non-leaf seed or weights). '
                '(final-size) Hypothesis degree distributions, tau,gamma,p, rho or explicit sets: Attack_rate_* vs EBCM / EBCM_discrete limits '
                '(T vs 2T, K vs 2K; disagreement >1e-9 => inconclusive); non-trivial: attack rate in (0.02,0.98). (limits) tau=0 and gamma=0 '
                'relations for every model (pair).' % nmax)
    ctx.assumptions = ['master equation solved with scipy.linalg.expm on the reachable states', 'limits are taken numerically; critical slowing down is reported as inconclusive']
    only = getattr(ctx, 'only', None)
    if not only or 'trees' in only:
        try:
            dev = triangle_control()
            ctx.extra['triangle_control_deviation'] = dev
            if dev < 1e-2:
                ctx.harness_error('trees', 'control failed: pair-based model deviates from the master equation on a triangle by only %.3g (oracle would be vacuous)' % dev)
        except Exception as e:
            ctx.extra['triangle_control_deviation'] = 'exception %r' % (e,)
        run_cases(ctx, 'trees', tree_cases(nmax, quick), prop_tree, stop_after=4)
        run_cases(ctx, 'trees', stiff_tree_cases(quick), prop_tree, stop_after=2)
    if not only or 'final-size' in only:
        run_hypothesis(ctx, 'final-size', final_case(), prop_final, 200 if quick else 3000, rounds=6)
    if not only or 'limits' in only:
        for nm in TAU0:                      # every model, every model pair: no reliance on how a sampler spreads its draws
            run_hypothesis(ctx, 'limits', limit_case('tau0', nm), prop_limit, 4 if quick else 100)
        for pair in sorted(PAIRS):
            run_hypothesis(ctx, 'limits', limit_case('gamma0', pair), prop_limit, 10 if quick else 200)
