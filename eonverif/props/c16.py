"""C16 - weighted event selection stays proportional to weight after any history.

Direct half: Hypothesis RuleBasedStateMachine over the candidate-set class used by all Gillespie simulators
(insert / replace / non-negative increment / remove / random removal), against a dict model; after every
step the *exact* selection law (forking random source) must equal weight/sum(weights).
Behavioural half: exact step laws of weighted Gillespie_SIR / SIS runs whose heaviest candidate changes
(shares the C01/C02 engine).
"""
import json, time
import hypothesis
from hypothesis import strategies as st, settings, seed, HealthCheck, Phase
from hypothesis.stateful import RuleBasedStateMachine, rule, invariant, precondition, run_state_machine_as_test

from ..runner import Failure, Result, HarnessError, RunawayError, _PropertyFailed, jsonable
from .. import forkrng

ID = 'C16'
LEVEL = 'exploration'

WEIGHTS = [0.001, 0.25, 0.5, 1.0, 2.0, 3.0, 1000.0, 0.1, 0.2, 0.3]
ITEMS = [0, 1, 2, 3, 4, 5, (0, 1), (1, 0), 'a']


def _get_class():
    """The candidate-set class named in the property's anchors, or None if it is absent or its interface differs from the
    one this harness drives (then only the behavioural half applies - a refactoring must not become a false alarm)."""
    import inspect
    import EoN.simulation as sim
    cls = getattr(sim, '_ListDict_', None)
    if cls is None:
        return None
    try:
        want = {'insert': ['item', 'weight'], 'update': ['item', 'weight_increment'], 'remove': [None], 'choose_random': [],
                'random_removal': [], 'total_weight': [], '__len__': [], '__contains__': [None]}
        for name, params in want.items():
            f = getattr(cls, name, None)
            if f is None:
                return None
            got = [p_ for p_ in inspect.signature(f).parameters if p_ != 'self']
            if len(got) < len(params) or any(a is not None and a != b for a, b in zip(params, got)):
                return None
        if 'weighted' not in inspect.signature(cls.__init__).parameters:
            return None
    except (TypeError, ValueError):
        return None
    return cls


def selection_law(ld):
    leaves = forkrng.enumerate_paths(lambda rng: ld.choose_random(), max_leaves=5000)
    errs = [lf for lf in leaves if lf.kind == 'error']
    if errs:
        return None, errs[0].out
    lw, mass = forkrng.law(leaves, key=lambda lf: repr(lf.out))
    return lw, None


class _BoundaryRNG(object):
    """Concrete random source that replays the boundary outcome the symbolic uniform cannot represent: random() is
    exactly 0.0 (a legal value of random.random(), which returns floats in [0.0, 1.0)); the first uniform pick lands on
    the zero-weight candidate `first`, later picks on `then` (the heaviest candidate)."""

    def __init__(self, first, then):
        self.first, self.then, self.n = first, then, 0

    def random(self):
        return 0.0

    def uniform(self, a, b):
        return a

    def choice(self, seq):
        self.n += 1
        if self.n > 1000:
            raise RunawayError('choose_random does not terminate when every acceptance draw is 0.0')
        want = self.first if self.n == 1 else self.then
        for x in seq:
            if x == want:
                return x
        return seq[0]

    def __getattr__(self, name):
        raise HarnessError('boundary-draw stub: the candidate set uses random.%s, which the stub does not model' % name)


def boundary_draw(ld, model, where):
    """zero-weight candidates are NEVER selected - also when the acceptance draw is exactly 0.0"""
    zeros = [it for it, w in model.items() if w == 0]
    heavy = max(model, key=lambda it: model[it])
    for z in zeros[:2]:
        rng = _BoundaryRNG(z, heavy)
        with forkrng.installed(rng):
            got = ld.choose_random()
        if model.get(got, 0) == 0:
            return [Failure('listdict:zero-weight-selected:acceptance-draw-0.0',
                            '%s: with the uniform pick on %r (weight 0) and random()==0.0 exactly, choose_random returned %r; candidates %r'
                            % (where, z, got, model))]
    return []


def check_state(ld, model, weighted, where):
    """-> list of Failure; compares the real candidate set with the dict model."""
    fails = []
    items = list(model)
    try:
        if len(ld) != len(model):
            fails.append(Failure('listdict:len', '%s: len=%d, model has %d' % (where, len(ld), len(model))))
        for it in ITEMS:
            if (it in ld) != (it in model):
                fails.append(Failure('listdict:contains', '%s: membership of %r is %r, model says %r'
                                     % (where, it, it in ld, it in model)))
                break
        tot = sum(model.values()) if weighted else len(model)
        tw = ld.total_weight()
        if abs(tw - tot) > 1e-9 * max(1.0, abs(tot)):
            fails.append(Failure('listdict:total_weight', '%s: total_weight()=%r, sum of current weights=%r'
                                 % (where, tw, tot)))
        if model and tot > 0:
            lw, err = selection_law(ld)
            if err is not None:
                fails.append(Failure('listdict:choose_random:%s' % type(err).__name__,
                                     '%s: choose_random raised %r with candidates %r' % (where, err, model)))
            else:
                for it in items:
                    w = model[it] if weighted else 1.0
                    want = w / tot
                    got = lw.get(repr(it), 0.0)
                    if abs(got - want) > 1e-9:
                        kind = 'zero-weight-selected' if w == 0 else 'selection-law'
                        fails.append(Failure('listdict:%s' % kind,
                                             '%s: P(select %r)=%.12g, weight/sum=%.12g; candidates %r'
                                             % (where, it, got, want, model)))
                        break
                extra = set(lw) - set(repr(i) for i in items)
                if extra:
                    fails.append(Failure('listdict:selects-absent', '%s: selects %r not in the candidate set' % (where, extra)))
            if weighted and not fails and any(w == 0 for w in model.values()):
                fails += boundary_draw(ld, model, where)
    except HarnessError:
        raise
    except Exception as e:
        fails.append(Failure('listdict:exception:%s' % type(e).__name__, '%s: %r' % (where, e)))
    return fails


def apply_op(ld, model, weighted, op, flags):
    """Apply one operation to the real object and to the model."""
    kind = op[0]
    heaviest = max(model.values()) if (weighted and model) else None
    if kind == 'insert':
        _, it, w = op
        if weighted and it in model and model[it] == heaviest and w < heaviest:
            flags['heaviest_changed'] = True
        ld.insert(it, weight=w if weighted else None)
        if weighted:
            model.pop(it, None)
            if w != 0:
                model[it] = w
        else:
            model[it] = 1.0
    elif kind == 'update':
        _, it, w = op
        ld.update(it, weight_increment=w if weighted else None)
        if weighted:
            model[it] = model.get(it, 0) + w
        else:
            model[it] = 1.0
    elif kind == 'remove':
        _, it = op
        if weighted and model[it] == heaviest:
            flags['heaviest_changed'] = True
        ld.remove(it)
        del model[it]
    elif kind == 'refresh_total':
        ld.update_total_weight()          # the recomputation used against roundoff: must leave total == sum of current weights
    elif kind == 'random_removal':
        _, pick = op
        leaves = [lf for lf in forkrng.enumerate_paths(lambda rng: ld.choose_random(), max_leaves=5000)
                  if lf.kind == 'done']
        if not leaves:
            return [Failure('listdict:choose_random:no-selection', 'choose_random never completes on candidates %r' % (model,))]
        lf = leaves[pick % len(leaves)]
        rng = forkrng.ForkRNG(lf.script)
        with forkrng.installed(rng):
            got = ld.random_removal()
        if got not in model:
            return [Failure('listdict:random_removal-absent', 'random_removal returned %r not in %r' % (got, model))]
        if weighted and model[got] == heaviest:
            flags['heaviest_changed'] = True
        del model[got]
    else:
        raise HarnessError('unknown op %r' % (op,))
    return []


def run_ops(weighted, ops):
    """Plain (Hypothesis-free) execution of an operation history; used by replay and by the machine."""
    cls = _get_class()
    ld = cls(weighted=weighted)
    model, flags = {}, {}
    fails = []
    nontrivial = False
    for i, op in enumerate(ops):
        op = tuple(tuple(x) if isinstance(x, list) else x for x in op)
        try:
            fails += apply_op(ld, model, weighted, op, flags)
        except HarnessError:
            raise
        except Exception as e:
            fails.append(Failure('listdict:op-exception:%s:%s' % (op[0], type(e).__name__),
                                 'step %d %r raised %r (model before: %r)' % (i, op, e, model)))
            break
        fails += check_state(ld, model, weighted, 'after step %d %r' % (i, op))
        if flags.get('heaviest_changed') and len(set(model.values())) >= 2:
            nontrivial = True
        if fails:
            break
    return Result(fails, nontrivial=nontrivial or (not weighted and len(ops) >= 4),
                  classes=['weighted' if weighted else 'unweighted'] + (['heaviest_changed'] if flags.get('heaviest_changed') else []))


def make_machine(ctx, sub, weighted, state):
    class Machine(RuleBasedStateMachine):
        def __init__(self):
            super().__init__()
            self.ld = _get_class()(weighted=weighted)
            self.model = {}
            self.flags = {}
            self.ops = []
            self.nontrivial = False
            self.dead = False

        def _do(self, op):
            if state['stop'] or self.dead:
                return
            self.ops.append(op)
            try:
                fails = apply_op(self.ld, self.model, weighted, op, self.flags)
            except HarnessError:
                raise
            except Exception as e:
                fails = [Failure('listdict:op-exception:%s:%s' % (op[0], type(e).__name__),
                                 'step %d %r raised %r' % (len(self.ops) - 1, op, e))]
            if not fails:
                fails = check_state(self.ld, self.model, weighted, 'after step %d %r' % (len(self.ops) - 1, op))
            if self.flags.get('heaviest_changed') and len(set(self.model.values())) >= 2:
                self.nontrivial = True
            new = ctx.split(fails)
            if new:
                self.dead = True
                case = {'weighted': weighted, 'ops': jsonable(self.ops)}
                size = len(json.dumps(case))
                if state['best'] is None or size <= state['best'][2]:
                    state['best'] = (case, new[0], size)
                if state['t_first'] is None:
                    state['t_first'] = time.time()
                elif time.time() - state['t_first'] > 60:
                    state['stop'] = True
                    return
                raise _PropertyFailed(new[0].signature)

        @rule(it=st.sampled_from(ITEMS), w=st.one_of(st.sampled_from(WEIGHTS), st.just(0.0),
                                                       st.floats(0.01, 100.0, allow_nan=False)))
        def insert(self, it, w):
            self._do(('insert', it, w))

        @rule(it=st.sampled_from(ITEMS), w=st.one_of(st.sampled_from(WEIGHTS), st.just(0.0)))
        def update(self, it, w):
            if not weighted and it in self.model:
                pass
            self._do(('update', it, w))

        @precondition(lambda self: len(self.model) > 0)
        @rule(k=st.integers(0, 50))
        def remove(self, k):
            it = list(self.model)[k % len(self.model)]
            self._do(('remove', it))

        @precondition(lambda self: weighted and hasattr(self.ld, 'update_total_weight'))
        @rule()
        def refresh_total(self):
            self._do(('refresh_total',))

        @precondition(lambda self: len(self.model) > 0 and (not weighted or sum(self.model.values()) > 0))
        @rule(pick=st.integers(0, 50))
        def random_removal(self, pick):
            self._do(('random_removal', pick))

        def teardown(self):
            if not state['stop']:
                ctx.record(sub, {'weighted': weighted, 'ops': jsonable(self.ops)}, self.nontrivial or
                           (not weighted and len(self.ops) >= 4),
                           ['weighted' if weighted else 'unweighted'] +
                           (['heaviest_changed'] if self.flags.get('heaviest_changed') else []))
    return Machine


def run_machine(ctx, sub, weighted, max_examples, steps):
    from hypothesis import errors as herrors
    flaky = tuple(getattr(herrors, n) for n in ('Flaky', 'FlakyFailure', 'FlakyReplay') if hasattr(herrors, n))
    for rnd in range(3):
        state = {'best': None, 't_first': None, 'stop': False}
        M = make_machine(ctx, sub, weighted, state)
        try:
            run_state_machine_as_test(
                seed(ctx.seed * 1000 + rnd)(M),
                settings=settings(max_examples=max_examples, stateful_step_count=steps, database=None,
                                  deadline=None, derandomize=False, report_multiple_bugs=False,
                                  suppress_health_check=list(HealthCheck), print_blob=False,
                                  phases=[Phase.generate, Phase.shrink]))
        except _PropertyFailed:
            pass
        except flaky:
            pass
        except HarnessError as e:
            ctx.harness_error(sub, str(e))
            return
        except Exception as e:
            if state['best'] is None:
                import traceback
                ctx.harness_error(sub, 'unexpected %s: %s %s' % (type(e).__name__, e, traceback.format_exc()[-1200:]))
                return
        if state['best'] is None:
            break
        case, failure, _ = state['best']
        ctx.violation(sub, case, failure)


def long_run_cases(seed, quick):
    for k, n in enumerate((3000, 30000) if quick else (3000, 30000, 120000)):
        yield {'kind': 'skew', 'n': n, 'seed': seed * 101 + k}
    yield {'kind': 'churn', 'ops': 300000 if quick else 1500000, 'seed': seed * 103 + 7}


def prop_long_run(case):
    """what only shows after very many operations or very many consecutive rejections (iteration caps, periodic resynchronisation):
    (skew) one candidate of weight 1e6 among n of weight 1e-9 - every selection must be the heavy one (a light one has probability
    n*1e-15 < 2e-10); (churn) several 1e5 insertions/removals against a dict model, total weight compared at checkpoints"""
    import random
    cls = _get_class()
    fails = []
    R = random.Random(case['seed'])
    random.seed(case['seed'])
    try:
        if case['kind'] == 'skew':
            ld = cls(weighted=True)
            n = case['n']
            heavy = R.randrange(n)
            for i in range(n):
                ld.update(('c', i), weight_increment=(1.0e6 if i == heavy else 1.0e-9))
            for _ in range(12):
                got = ld.choose_random()
                if got != ('c', heavy):
                    fails.append(Failure('listdict:long-run:light-candidate-selected',
                                         'one candidate of weight 1e6 among %d of weight 1e-9: choose_random returned %r of weight %r' % (n, got, ld.weight[got])))
                    break
        else:
            ld = cls(weighted=True)
            model = {}
            pool = [0.25, 0.5, 1.0, 2.0, 3.0, 7.5, 0.125]
            removals = 0
            for step in range(case['ops']):
                it = R.randrange(60)
                if it in model and R.random() < 0.5:
                    ld.remove(it); del model[it]; removals += 1
                else:
                    w = R.choice(pool)
                    ld.insert(it, weight=w); model[it] = w
                if step % 50000 == 49999 or step == case['ops'] - 1:
                    tot = sum(model.values())
                    if abs(ld.total_weight() - tot) > 1e-7 * max(1.0, tot) or len(ld) != len(model):
                        fails.append(Failure('listdict:long-run:total_weight',
                                             'after %d operations (%d removals) total_weight()=%r, sum of current weights=%r, len=%d vs %d'
                                             % (step + 1, removals, ld.total_weight(), tot, len(ld), len(model))))
                        break
    except Exception as e:
        fails.append(Failure('listdict:long-run:exception:%s' % type(e).__name__, '%r' % (e,)))
    return Result(fails, nontrivial=True, classes=['long-run:' + case['kind']])


@st.composite
def weighted_spec_case(draw):
    """C03's generated rule sets, with every transition weighted (edge/node attribute or rate function) so that each
    candidate set of Gillespie_simple_contagion is a weighted one; directed contact graphs carry different weights on u->v and v->u"""
    from . import c03
    case = draw(c03.spec_case())
    for tr in case['spont'] + case['induced']:
        if case.get('tiny') and tr[-1] not in ('label', 'fn'):
            tr[-2] = tr[-2] / 2.0 ** -30        # spec_case scaled the weights by 2^-30 and the rates of its weighted transitions by 2^30
        tr[-1] = draw(st.sampled_from(['label', 'fn']))
    return case


def replay(ctx, sub, case):
    if sub == 'long-run':
        return prop_long_run(case).failures
    if sub == 'behavioural-generic':
        from . import c03
        return c03.prop_walk(case).failures
    if sub == 'behavioural-complex':
        from . import c15
        return c15.replay(ctx, sub, case)
    if sub.startswith('machine'):
        return run_ops(case['weighted'], case['ops']).failures
    if sub == 'behavioural-SIS':
        from . import c02
        return c02.tree_prop_weighted(case).failures
    from . import c01
    return c01.replay(ctx, sub, case)


def run(ctx):
    quick = ctx.tier == 'quick'
    ctx.rule = ('Hypothesis rule-based machine: histories of insert(item,w>=0)/update(item,inc>=0)/remove/'
                'random_removal/refresh of the running total over 9 items and a weight pool with repeats and extremes (1e-3..1e3); after every '
                'step exact selection law (forking RNG) == w/sum(w), total_weight()==sum, len/in == dict model. '
                'Non-trivial: weighted history in which the heaviest candidate was removed or replaced by a lighter '
                'one while >=2 distinct weights remain (unweighted: >=4 ops); distinct by op-history digest. With a zero-weight candidate '
                'present the boundary outcome random()==0.0 is replayed concretely (zero weight must still be rejected). Behavioural half: '
                'exact step law along histories of weighted Gillespie_SIR / Gillespie_SIS / Gillespie_simple_contagion (all transitions '
                'weighted, directed graphs with different weights on reciprocal arcs) / Gillespie_complex_contagion.')
    ctx.assumptions = ['selections only when sum of weights > 0', 'increments are non-negative (property statement)',
                       'the candidate-set class is EoN.simulation._ListDict_ (anchor); randomness via EoN.simulation.random']
    if _get_class() is None:
        ctx.extra['direct_half'] = 'candidate-set class not found or with a different interface; behavioural half only'
    else:
        run_machine(ctx, 'machine-weighted', True, 250 if quick else 4000, 40 if quick else 60)
        run_machine(ctx, 'machine-unweighted', False, 60 if quick else 600, 25)
        from ..runner import run_cases
        run_cases(ctx, 'long-run', long_run_cases(ctx.seed, quick), prop_long_run, case_timeout=600)
    try:
        from . import c01
        c01.behavioural_weighted(ctx, 'behavioural', quick)
        from . import c02
        c02.behavioural_weighted(ctx, 'behavioural-SIS', quick)
        from . import c03, c15
        from ..runner import run_hypothesis
        run_hypothesis(ctx, 'behavioural-generic', weighted_spec_case(), c03.prop_walk, 200 if quick else 3000, rounds=2)
        run_hypothesis(ctx, 'behavioural-complex', c15.model_case(), c15.prop_walk, 150 if quick else 2000, rounds=2)
        # complete history trees of C15's canonical models with heterogeneous per-node rates and lazy influence functions:
        # the candidate set of the complex-contagion simulator is re-rated by the user's influence function
        c01.run_exhaustive(ctx, 'behavioural-complex', c15.canonical_cases(quick), 'eonverif.props.c15', 'tree_prop')
    except ImportError:
        pass
