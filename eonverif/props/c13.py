"""C13 - event-driven SIS with arbitrary delays follows the plain reference semantics.

Hypothesis: graph n<=5; per node a list of durations (k-th infection), per ordered pair a list of sorted delay lists
all < duration (documented precondition), on a dyadic grid; cases whose *reference* timeline has two events at the
same instant are discarded and counted.  Oracle: a 40-line event-list reference (attempt infects iff the target is
susceptible at that instant; recoveries at s+duration; nothing at or after tmax).  Exact equality of arrays,
histories and transmissions, for both API forms.  Law clause: fast_nonMarkov_SIS with exponential rules vs the SIS
master equation (Monte-Carlo, shares the C02 oracle).
"""
import heapq
from hypothesis import strategies as st

from ..runner import Failure, Result, run_hypothesis, exc_signature, CallBudget, RunawayError
from .. import oracles, gen, mc
from . import c01, c02

ID = 'C13'
LEVEL = 'exploration'
INF = float('inf')


def reference(nodes, adj, dur, delays, I0, tmin, tmax, late=False):
    """-> (events [(time, kind, node, source)], coincidence flag).  dur[u][k], delays[(u,v)][k] for the k-th infection of u."""
    status = {u: 'S' for u in nodes}
    count = {u: 0 for u in nodes}
    heap = []
    cnt = [0]

    def push(t, kind, a, b):
        heapq.heappush(heap, (t, cnt[0], kind, a, b)); cnt[0] += 1
    events = []

    def infect(t, u, src):
        status[u] = 'I'
        k = count[u]
        count[u] += 1
        d = dur[u][k % len(dur[u])]
        events.append((t, 'I', u, src))
        push(t + d, 'rec', u, None)
        for v in adj[u]:
            lst = delays[(u, v)][k % len(delays[(u, v)])]
            for x in lst:
                if x < d or late:
                    push(t + x, 'att', u, v)
    for u in I0:
        infect(tmin, u, None)
    coincide = False
    last = None
    while heap:
        t, _, kind, a, b = heapq.heappop(heap)
        if not (t < tmax):
            break
        if last is not None and t == last:
            coincide = True
        last = t
        if kind == 'rec':
            status[a] = 'S'
            events.append((t, 'S', a, None))
        else:
            if status[b] == 'S':
                infect(t, b, a)
    return events, coincide


@st.composite
def sis_case(draw):
    gc = draw(gen.graph_case(1, 5, labels=('int', 'perm', 'str'), weighted=False,
                             family=draw(st.sampled_from(['random', 'complete', 'cycle', 'star', 'path', 'random']))))
    nodes, adj = oracles.adjacency(gc)
    pairs = [(u, v) for u in nodes for v in adj[u]]
    q = st.integers(1, 159)         # multiples of 1/64 up to 2.5
    dur = [[draw(st.integers(512, 2048)) / 1024.0 for _ in range(draw(st.integers(1, 3)))] for _ in nodes]
    mind = min(min(d) for d in dur)
    late = draw(st.integers(0, 3)) == 0      # the statement says 'any lists of delays': also attempts after the source's own recovery
    delays = []
    for (u, v) in pairs:
        du = dur[nodes.index(u)]
        lists = []
        for k in range(draw(st.integers(1, 2))):
            m = draw(st.integers(0, 4))
            hi = int(min(du) * 1024) - 1 if not late else int(max(du) * 1024 * 3)
            xs = sorted(set(draw(st.integers(1, hi)) / 1024.0 for _ in range(m)))
            lists.append(xs)
        delays.append(lists)
    I0, _ = draw(gen.initial_sets(gc['nodes'], allow_R=False, max_I=2))
    tmin = draw(st.sampled_from([0, 0, -1.5, 2]))
    tmax = tmin + draw(st.sampled_from([2, 3.5, 5, 8, 8]))
    case = {'gc': gc, 'dur': dur, 'delays': delays, 'I0': I0, 'tmin': tmin, 'tmax': tmax, 'late': late,
            'api': draw(st.sampled_from(['two', 'joint'])), 'single': draw(st.booleans())}
    if draw(st.integers(0, 2)) == 0:
        # extra-argument options: the rules take a time scale each (trans_time_args / rec_time_args / trans_and_rec_time_args)
        case['args'] = draw(st.sampled_from([[2.0, 1.0], [0.5, 1.0], [1.0, 2.0], [1.0, 0.5], [0.5, 2.0], [2.0, 2.0]]))
    # the rule hands back its stored list objects (entries of a look-up table) rather than fresh copies
    case['shared_lists'] = draw(st.booleans())
    return case


@st.composite
def sis_decimal_case(draw):
    """durations and delays in tenths (0.1 is not a binary fraction): event times are float sums such as 0.2+0.7 = 0.8999999999999999,
    and the horizon is the round number next to one of them - an event just below tmax must still be reported, one at tmax not"""
    gc = draw(gen.graph_case(2, 5, labels=('int', 'str'), weighted=False, directed=draw(st.integers(0, 3)) == 0,
                             family=draw(st.sampled_from(['random', 'complete', 'cycle', 'star', 'path']))))
    nodes, adj = oracles.adjacency(gc)
    pairs = [(u, v) for u in nodes for v in adj[u]]
    dur = [[draw(st.integers(5, 23)) / 10.0 for _ in range(draw(st.integers(1, 2)))] for _ in nodes]
    delays = []
    for (u, v) in pairs:
        du = dur[nodes.index(u)]
        lists = []
        for k in range(draw(st.integers(1, 2))):
            hi = int(round(min(du) * 10)) - 1
            xs = sorted(set(draw(st.integers(1, max(1, hi))) / 10.0 for _ in range(draw(st.integers(0, 3)))))
            lists.append(xs)
        delays.append(lists)
    I0, _ = draw(gen.initial_sets(gc['nodes'], allow_R=False, max_I=1))
    return {'gc': gc, 'dur': dur, 'delays': delays, 'I0': I0, 'tmin': draw(st.sampled_from([0, 0.5, 0.3, 0.2])), 'late': False,
            'api': draw(st.sampled_from(['two', 'joint'])), 'single': draw(st.booleans()), 'pick': draw(st.integers(0, 30)),
            'shared_lists': draw(st.booleans())}


def prop_ref_decimal(case):
    nodes, adj = oracles.adjacency(case['gc'])
    pairs = [(u, v) for u in nodes for v in adj[u]]
    events, _ = reference(nodes, adj, dict(zip(nodes, case['dur'])), dict(zip(pairs, case['delays'])),
                          [oracles.tolabel(u) for u in case['I0']], case['tmin'], case['tmin'] + 9.0)
    later = [e[0] for e in events if e[0] > case['tmin']]
    if not later:
        return Result([], classes=['decimal:no-event'])
    Te = later[case['pick'] % len(later)]
    tmax = round(Te, 1)
    if tmax < Te:
        tmax = round(Te + 0.1, 1)
    c = dict(case)
    c['tmax'] = tmax
    res = prop_ref(c)
    res.classes = ['decimal-grid'] + (['event-one-ulp-below-tmax'] if 0 < tmax - Te < 1e-9 else []) + (['event-exactly-at-tmax'] if tmax == Te else []) + res.classes
    res.nontrivial = 'discarded-coincidence' not in res.classes and len(later) >= 2
    return res


def prop_ref(case):
    import EoN
    nodes, adj = oracles.adjacency(case['gc'])
    pairs = [(u, v) for u in nodes for v in adj[u]]
    a_tr, a_rec = case.get('args') or (1.0, 1.0)
    dur = {u: [x * a_rec for x in xs] for u, xs in zip(nodes, case['dur'])}             # what the user's rules mean with their extra arguments
    delays = {pq: [[x * a_tr for x in xs] for xs in lists] for pq, lists in zip(pairs, case['delays'])}
    raw_dur = dict(zip(nodes, case['dur']))
    I0 = [oracles.tolabel(u) for u in case['I0']]
    tmin, tmax = case['tmin'], case['tmax']
    late = bool(case.get('late'))
    with_args = bool(case.get('args'))
    shared = bool(case.get('shared_lists'))
    events, coincide = reference(nodes, adj, dur, delays, I0, tmin, tmax, late=late)
    if coincide:
        return Result([], nontrivial=False, classes=['discarded-coincidence'])
    N = len(nodes)
    # expected outputs
    t_w, S_w, I_w = [float(tmin)], [N - len(I0)], [len(I0)]
    hist_w = {u: ([float(tmin)], ['I' if u in I0 else 'S']) for u in nodes}
    trans_w = [(float(tmin), None, u) for u in I0]
    for (t, kind, u, src) in events:
        if t == tmin and src is None and kind == 'I':
            continue
        t_w.append(float(t))
        S_w.append(S_w[-1] + (1 if kind == 'S' else -1))
        I_w.append(I_w[-1] + (-1 if kind == 'S' else 1))
        hist_w[u][0].append(float(t)); hist_w[u][1].append(kind)
        if kind == 'I':
            trans_w.append((float(t), src, u))
    fails = []
    name = 'fast_nonMarkov_SIS'

    def make():
        count = {u: 0 for u in nodes}
        budget = CallBudget(2000 * (N + len(pairs) + 1), 'delay/duration rule')

        raw_delays = {pq: [list(xs) for xs in lists] for pq, lists in zip(pairs, case['delays'])}    # this run's own table

        def rec(u, scale=1.0):
            budget.tick()
            k = count[u]
            count[u] += 1
            return raw_dur[u][k % len(raw_dur[u])] * scale

        def trans(u, v, d, scale=1.0):
            budget.tick()
            k = count[u] - 1
            lst = raw_delays[(u, v)][k % len(raw_delays[(u, v)])]
            if shared and scale == 1.0 and (late or all(x < d for x in lst)):
                return lst                  # the table entry itself: it is the user's object and will be handed out again
            return [x * scale for x in lst if x * scale < d or late]

        def joint(u, nbrs, s_tr=1.0, s_rec=1.0):
            d = rec(u, s_rec)
            return {v: trans(u, v, d, s_tr) for v in nbrs}, d
        return rec, trans, joint

    for full in (False, True):
        mode = 'full' if full else 'arrays'
        rec, trans, joint = make()
        G = oracles.build_graph(case['gc'])
        kw = dict(initial_infecteds=(I0[0] if case.get('single') and len(I0) == 1 else list(I0)), tmin=tmin, tmax=tmax, return_full_data=full)
        try:
            if case['api'] == 'two':
                if with_args:
                    kw.update(trans_time_args=(a_tr,), rec_time_args=(a_rec,))
                out = EoN.fast_nonMarkov_SIS(G, trans_time_fxn=trans, rec_time_fxn=rec, **kw)
            else:
                if with_args:
                    kw.update(trans_and_rec_time_args=(a_tr, a_rec))
                out = EoN.fast_nonMarkov_SIS(G, trans_and_rec_time_fxn=joint, **kw)
        except RunawayError as e:
            fails.append(Failure('%s:%s:non-termination' % (name, mode), str(e)))
            continue
        except Exception as e:
            fails.append(Failure('%s:%s:exception:%s' % (name, mode, exc_signature(e)), '%s mode raised %r' % (mode, e)))
            continue
        if not full:
            got = ([float(x) for x in out[0]], [int(x) for x in out[1]], [int(x) for x in out[2]])
            if got != (t_w, S_w, I_w):
                k = next((i for i in range(min(len(got[0]), len(t_w))) if (got[0][i], got[1][i], got[2][i]) != (t_w[i], S_w[i], I_w[i])), min(len(got[0]), len(t_w)))
                fails.append(Failure('%s:arrays-differ-from-reference' % name,
                                     'arrays have %d rows, reference %d; first difference at row %d: got %r, reference %r'
                                     % (len(got[0]), len(t_w), k, tuple(x[k:k + 1] for x in got), (t_w[k:k + 1], S_w[k:k + 1], I_w[k:k + 1]))))
        else:
            for u in nodes:
                ts, ss = out.node_history(u)
                g = ([float(x) for x in ts], list(ss))
                if g != (hist_w[u][0], hist_w[u][1]):
                    fails.append(Failure('%s:history-differs-from-reference' % name, 'node %r history %r, reference %r' % (u, g, hist_w[u])))
                    break
            tr = [(float(a), b, c) for a, b, c in out.transmissions()]
            if sorted(tr, key=repr) != sorted(trans_w, key=repr):
                fails.append(Failure('%s:transmissions-differ-from-reference' % name, 'transmissions %r, reference %r' % (tr[:8], trans_w[:8])))
    # non-trivial: an attempt falls inside the target's infectious period and a node is infected >= 2 times
    twice = any(hist_w[u][1].count('I') >= 2 for u in nodes)
    n_att = 0
    classes = ['api=' + case['api']] + (['extra-args'] if with_args else []) + (['rule-returns-stored-lists'] if shared else []) + (['reinfection'] if twice else []) + (['delays-after-recovery'] if late else []) + (['single-node-form'] if case.get('single') and len(I0) == 1 else [])
    succ = sum(1 for e in events if e[1] == 'I' and e[3] is not None)
    return Result(fails, nontrivial=twice and succ >= 2, classes=classes)


def mc_configs(thorough):
    out = []
    # the statement's last clause: with exponential rules the engine coincides in law with fast_SIS - both are held against the
    # same master equation on the same configurations
    for c in c02.mc_configs(['fast_nonMarkov_SIS_exp', 'fast_SIS'], thorough=thorough):
        out.append(c)
    return out


def replay(ctx, sub, case):
    if sub.startswith('mc'):
        return mc.replay_mc(ctx, case, 64000)
    if sub == 'decimal':
        return prop_ref_decimal(case).failures
    return prop_ref(case).failures


def run(ctx):
    quick = ctx.tier == 'quick'
    ctx.rule = ('Hypothesis: graph n<=5, per-node duration lists (k-th infection) in [0.5,2], per ordered pair 1-2 sorted delay lists '
                '(0-4 delays each, all < duration) on a 1/1024 grid, I0 (1-2 nodes), tmin, tmax in tmin+{2,3.5,5,8}, API two-function or '
                'joint; cases with two reference events at the same instant are discarded (counted as class discarded-coincidence). '
                'Non-trivial: some node infected twice and >=2 successful transmissions. Law clause: Monte-Carlo of '
                'fast_nonMarkov_SIS with exponential rules vs the SIS master equation.')
    ctx.assumptions = ['user rules are pure functions of (arguments, k-th infection of that node); delays sorted and < duration',
                       'the joint function returns every neighbour as a key (the form the code accepts, note D1 in DESIGN.md)',
                       'distinct event times (coincidences discarded)']
    only = getattr(ctx, 'only', None)
    if not only or 'reference' in only:
        run_hypothesis(ctx, 'reference', sis_case(), prop_ref, 1500 if quick else 60000)
        n = ctx.sub.get('reference', {}).get('evaluations', 0)
        disc = ctx.classes.get('reference:discarded-coincidence', 0)
        ctx.extra['discarded_coincidences'] = disc
        if n and disc > 0.25 * n:
            ctx.harness_error('reference', 'too many discarded cases: %d of %d' % (disc, n))
    if not only or 'decimal' in only:
        run_hypothesis(ctx, 'decimal', sis_decimal_case(), prop_ref_decimal, 800 if quick else 20000, rounds=2)
        ctx.extra['decimal_grid'] = {k.split(':', 1)[1]: v for k, v in ctx.classes.items() if k.startswith('decimal:')}
    if not only or 'mc' in only:
        mc.run_mc(ctx, 'mc', mc_configs(not quick), 32000 if quick else 500000)
