"""C07 - equivalent ODE models agree: SIR hierarchy and regular-graph reductions.

(i)   uniformly random initial infection (rho) on generated degree distributions: EBCM == SIR compact pairwise ==
      SIR super-compact pairwise == SIR effective degree == SIR compact effective degree on S, I, R.
(iii) preferential-mixing EBCM (continuous and discrete) with uncorrelated mixing P_n(k'|k)=k'P(k')/<k> == EBCM.
(ii)  d-regular graphs: {heterogeneous pairwise, compact pairwise, pair-based, homogeneous pairwise} coincide and
      {heterogeneous mean-field, individual-based, homogeneous mean-field} coincide, for SIS and SIR.
Differential oracle between *different code paths*; tolerance 2e-4 N (vode/adams paths) / 5e-5 N.
"""
import numpy as np
from hypothesis import strategies as st

from ..runner import Failure, Result, run_hypothesis, exc_signature
from .. import analytic_cases as ac, oracles, gen

ID = 'C07'
LEVEL = 'exploration'

HIER = ['EBCM_from_graph', 'SIR_compact_pairwise_from_graph', 'SIR_super_compact_pairwise_from_graph',
        'SIR_effective_degree_from_graph', 'SIR_compact_effective_degree_from_graph']
PAIR_FAMILY = {'SIS': ['SIS_heterogeneous_pairwise_from_graph', 'SIS_compact_pairwise_from_graph', 'SIS_pair_based', 'SIS_homogeneous_pairwise_from_graph',
                       'SIS_heterogeneous_pairwise[dense]'],       # [dense]: the solver's own array interface, arrays indexed by degree 0..kmax
               'SIR': ['SIR_heterogeneous_pairwise_from_graph', 'SIR_compact_pairwise_from_graph', 'SIR_pair_based', 'SIR_homogeneous_pairwise_from_graph',
                       'SIR_heterogeneous_pairwise[dense]']}
MF_FAMILY = {'SIS': ['SIS_heterogeneous_meanfield_from_graph', 'SIS_individual_based', 'SIS_homogeneous_meanfield_from_graph'],
             'SIR': ['SIR_heterogeneous_meanfield_from_graph', 'SIR_individual_based', 'SIR_homogeneous_meanfield_from_graph']}
ADAMS = {'SIS_pair_based', 'SIS_heterogeneous_pairwise_from_graph'}


def run_models(case, names, G=None):
    out = {}
    errs = []
    for nm in names:
        c = dict(case)
        c['entry'] = nm
        try:
            with np.errstate(all='ignore'):
                o, _ = ac.call_entry(c, False, G=G)
            out[nm] = [np.asarray(x, dtype=float) for x in o]
        except Exception as e:
            errs.append(Failure('%s:exception:%s' % (nm, exc_signature(e)), '%s raised %r' % (nm, e)))
    return out, errs


def compare(case, outs, names, label, N):
    fails = []
    ref = names[0]
    if ref not in outs:
        return fails
    for nm in names[1:]:
        if nm not in outs:
            continue
        tol = (2e-4 if (nm in ADAMS or ref in ADAMS) else 5e-5) * N
        for k, comp in enumerate('SIR'[:len(outs[ref]) - 1], start=1):
            a, b = outs[ref][k], outs[nm][k]
            if a.shape != b.shape:
                fails.append(Failure('%s:%s-vs-%s:shape' % (label, ref, nm), 'series shapes differ %r %r' % (a.shape, b.shape)))
                break
            d = float(np.max(np.abs(a - b)))
            if not np.isfinite(d) or d > tol:
                j = int(np.nanargmax(np.abs(a - b))) if np.isfinite(d) else 0
                fails.append(Failure('%s:%s-vs-%s' % (label, ref, nm),
                                     '%s(t): %s and %s differ by %.3g (> %.3g) at t=%r: %r vs %r (N=%d, tau=%r gamma=%r rho=%r)'
                                     % (comp, ref, nm, d, tol, float(outs[ref][0][j]), float(a[j]), float(b[j]), N, case['tau'], case['gamma'], case['rho'])))
                break
    return fails


@st.composite
def hier_case(draw):
    c = draw(ac.analytic_case(names=['EBCM_from_graph'], nmax=14, modes=('rho',), labels=('int', 'str'),
                              rates=st.one_of(st.sampled_from([0.5, 1.0, 2.0]), st.floats(0.1, 3.0, allow_nan=False))))
    c['tcount'] = 21
    c['rho'] = draw(st.sampled_from([0.01, 0.05, 0.1, 0.25, 0.5, 0.6]))
    if draw(st.integers(0, 3)) == 0:
        c['rho_default'] = True          # every wrapper is called without rho: documented default 1/N
        c['rho'] = 1.0 / len(c['gc']['nodes'])
    else:
        c.pop('rho_default', None)
    if draw(st.integers(0, 2)) == 0:
        c['then_add'] = [[draw(st.integers(0, 13)), draw(st.integers(0, 13))] for _ in range(draw(st.integers(1, 4)))]
    if draw(st.integers(0, 3)) == 0:
        # self-loops: the five models see the graph only through its degree sequence (a loop adds 2), so they must still coincide
        loops = [u for u in c['gc']['nodes'] if draw(st.integers(0, 2)) == 0]
        c['gc']['edges'] = c['gc']['edges'] + [[u, u] for u in loops]
        if loops:
            c['gc']['selfloops'] = True
            c['tmax'] = c['tmin'] + (c['tmax'] - c['tmin']) / 2.0
    return c


@st.composite
def hier_big_case(draw):
    """complete bipartite K_{a,b}: a few nodes of degree 35-75 (binomial coefficients of order 1e15-1e20 in the effective-degree
    initial condition) next to many of degree a"""
    a, b = draw(st.integers(1, 4)), draw(st.integers(35, 75))
    nodes = list(range(a + b))
    edges = [[i, a + j] for i in range(a) for j in range(b)]
    tau = draw(st.sampled_from([0.5, 1.0, 2.0]))
    tmin = draw(st.sampled_from([0, 2.0]))
    return {'entry': 'EBCM_from_graph', 'gc': {'nodes': nodes, 'edges': edges, 'ew': None, 'nw': None, 'directed': False}, 'mode': 'rho',
            'tau': tau, 'gamma': draw(st.sampled_from([0.5, 1.0])), 'p': 0.5, 'rho': draw(st.sampled_from([0.05, 0.2, 0.3, 0.5])),
            'tmin': tmin, 'tmax': tmin + 2.0 / (tau * b), 'tcount': 6, 'dtmin': 0, 'dtmax': 2, 'I0': [], 'R0': [], 'float_Ks': False}


def prop_hier(case):
    ic = ac.make_ic(case)
    if not ic.regular_domain():
        return Result([], nontrivial=False, classes=['singular'])
    G = oracles.build_graph(case['gc'])          # one graph object for all five models and for the second round below
    outs, errs = run_models(case, HIER, G=G)
    fails = errs + compare(case, outs, HIER, 'SIR-hierarchy', ic.N)
    if not fails and case.get('then_add'):
        # history: the caller edits the same graph object in place (new contacts) and asks again; nothing may be remembered
        nodes_ = [oracles.tolabel(u) for u in case['gc']['nodes']]
        extra = [[nodes_[a % len(nodes_)], nodes_[b % len(nodes_)]] for a, b in case['then_add']]
        extra = [e for e in extra if e[0] != e[1] and not G.has_edge(e[0], e[1])]
        if extra:
            G.add_edges_from(extra)
            c2 = dict(case)
            c2['gc'] = dict(case['gc'], edges=case['gc']['edges'] + extra)
            c2['tmax'] = c2['tmin'] + (c2['tmax'] - c2['tmin']) / 2.0
            outs2, errs2 = run_models(c2, HIER, G=G)
            fails += errs2 + [Failure(f.signature + ':after-in-place-edit', f.message) for f in compare(c2, outs2, HIER, 'SIR-hierarchy', ic.N)]
    nt = False
    if 'EBCM_from_graph' in outs:
        R = outs['EBCM_from_graph'][3]
        attack = (R[-1] + outs['EBCM_from_graph'][2][-1]) / ic.N
        nt = 0.05 <= attack <= 0.95 and len(ic.Ks) >= 2
    return Result(fails, nontrivial=nt, classes=(['>=2-degrees'] if len(ic.Ks) >= 2 else ['regular']) + (['rho-default'] if case.get('rho_default') else []) +
                  (['self-loops'] if case['gc'].get('selfloops') else []))


def uncorrelated_Pnk(ic):
    Pk = ic.Pk()
    kave = sum(k * p for k, p in Pk.items())
    return {k1: {k2: k2 * Pk[k2] / kave for k2 in Pk if k2 > 0} for k1 in Pk}


def prop_prefmix(case):
    import EoN
    ic = ac.make_ic(case)
    if ic.twoM == 0:
        return Result([], classes=['singular'])
    # only degrees >= 1 (an isolated node has no neighbour distribution)
    Pk = ic.Pk()
    fails = []
    N = ic.N
    psi, psiP = ac.psi_plain(ic)
    kw = dict(tmin=case['tmin'], tmax=case['tmax'], tcount=case['tcount'])
    try:
        a = EoN.EBCM_pref_mix(N, Pk, uncorrelated_Pnk(ic), case['tau'], case['gamma'], rho=case['rho'], **kw)
        b = EoN.EBCM_uniform_introduction(N, psi, psiP, case['tau'], case['gamma'], case['rho'], **kw)
        for k, comp in enumerate('SIR', start=1):
            d = float(np.max(np.abs(np.asarray(a[k]) - np.asarray(b[k]))))
            if not np.isfinite(d) or d > 5e-5 * N:
                fails.append(Failure('pref-mix:EBCM_pref_mix-vs-EBCM', '%s(t) differs by %.3g (uncorrelated mixing, N=%d, Pk=%r, tau=%r gamma=%r rho=%r)'
                                     % (comp, d, N, Pk, case['tau'], case['gamma'], case['rho'])))
                break
    except Exception as e:
        fails.append(Failure('pref-mix:continuous:exception:%s' % exc_signature(e), 'raised %r' % (e,)))
    try:
        T = case['dtmax'] - case['dtmin']
        a = EoN.EBCM_pref_mix_discrete(N, Pk, uncorrelated_Pnk(ic), case['p'], rho=case['rho'], tmin=0, tmax=T)
        b = EoN.EBCM_discrete_uniform_introduction(N, psi, psiP, case['p'], case['rho'], tmax=T)
        for k, comp in enumerate('SIR', start=1):
            x, y = np.asarray(a[k], dtype=float), np.asarray(b[k], dtype=float)
            d = float(np.max(np.abs(x - y))) if x.shape == y.shape else float('inf')
            if not np.isfinite(d) or d > 1e-8 * N:
                fails.append(Failure('pref-mix:EBCM_pref_mix_discrete-vs-EBCM_discrete', '%s(t) differs by %.3g (uncorrelated mixing, N=%d, Pk=%r, p=%r rho=%r)'
                                     % (comp, d, N, Pk, case['p'], case['rho'])))
                break
    except Exception as e:
        fails.append(Failure('pref-mix:discrete:exception:%s' % exc_signature(e), 'raised %r' % (e,)))
    return Result(fails, nontrivial=len(ic.Ks) >= 2 and 0 < case['p'] < 1, classes=['>=2-degrees'] if len(ic.Ks) >= 2 else ['regular'])


@st.composite
def regular_case(draw):
    d = draw(st.integers(1, 5))
    n = draw(st.integers(max(d + 1, 3), 8))
    if (n * d) % 2:
        n += 1
    # circulant d-regular graph
    edges = set()
    for i in range(n):
        for s in range(1, d // 2 + 1):
            edges.add(tuple(sorted((i, (i + s) % n))))
        if d % 2:
            edges.add(tuple(sorted((i, (i + n // 2) % n))))
    labels = draw(gen.label_scheme(n, ('int', 'str')))
    gc = {'nodes': labels, 'edges': [[labels[a], labels[b]] for a, b in sorted(edges)], 'ew': None, 'nw': None, 'directed': False}
    nodes, adj = oracles.adjacency(gc)
    if len(set(len(adj[u]) for u in nodes)) != 1:
        gc = {'nodes': labels[:4], 'edges': [[labels[0], labels[1]], [labels[1], labels[2]], [labels[2], labels[3]], [labels[3], labels[0]]],
              'ew': None, 'nw': None, 'directed': False}
        d = 2
    if draw(st.integers(0, 2)) == 0:
        # the graph happens to carry edge/node attributes (a 'weight' from wherever it was built): the calls below pass no weight
        # option, so the models are the unweighted ones
        gc['ew'] = {'weight': [draw(st.sampled_from([0.5, 2.0, 0.25, 3.0])) for _ in gc['edges']]}
        gc['nw'] = {'weight': [draw(st.sampled_from([0.5, 2.0])) for _ in gc['nodes']]}
    tau = draw(st.one_of(st.sampled_from([0.5, 1.0, 2.0]), st.floats(0.1, 3.0, allow_nan=False)))
    T = min(draw(st.sampled_from([1.0, 3.0, 10.0])), 3.0 / (tau * d))
    return {'entry': 'x', 'gc': gc, 'mode': 'rho', 'tau': tau, 'gamma': draw(st.one_of(st.sampled_from([0.5, 1.0]), st.floats(0.1, 3.0, allow_nan=False))),
            'rho': draw(st.sampled_from([0.01, 0.05, 0.1, 0.25, 0.5, 0.6, 0, 0.0])), 'p': 0.5, 'tmin': 0, 'tmax': T, 'tcount': 21, 'shift': draw(st.sampled_from([0, 0, -1.5, 2.0, 3.25])),
            'dtmin': 0, 'dtmax': 3, 'I0': [], 'R0': [], 'model': draw(st.sampled_from(['SIS', 'SIR'])), 'd': d,
            'nodelist_perm': (list(draw(st.permutations(list(range(len(gc['nodes'])))))) if draw(st.booleans()) else None)}


def prop_regular(case):
    case = dict(case)
    case['tmin'] = case['tmin'] + case.get('shift', 0)     # the reporting window may start anywhere (autonomous systems)
    case['tmax'] = case['tmax'] + case.get('shift', 0)
    model = case['model']
    N = len(case['gc']['nodes'])
    fails = []
    outs, errs = run_models(case, PAIR_FAMILY[model])
    fails += errs + compare(case, outs, PAIR_FAMILY[model], '%s-regular-pairwise' % model, N)
    outs2, errs2 = run_models(case, MF_FAMILY[model])
    fails += errs2 + compare(case, outs2, MF_FAMILY[model], '%s-regular-meanfield' % model, N)
    ref = outs.get(PAIR_FAMILY[model][0])
    nt = False
    if ref is not None:
        frac = ref[2][-1] / N if model == 'SIS' else (ref[2][-1] + ref[3][-1]) / N
        nt = 0.03 <= frac <= 0.97
    return Result(fails, nontrivial=nt and case['d'] >= 2, classes=[model, 'd=%d' % case['d']] + (['tmin!=0'] if case['tmin'] != 0 else []))


def replay(ctx, sub, case):
    return {'hierarchy': prop_hier, 'pref-mix': prop_prefmix, 'regular': prop_regular}[sub](case).failures


def run(ctx):
    quick = ctx.tier == 'quick'
    ctx.rule = ('Hypothesis: (hierarchy) graphs 2<=n<=14 realising a degree distribution, tau,gamma in [0.1,3], rho in {.01..0.6}, 21 time '
                'points, tau*kmax*T<=3: five SIR models must agree on S,I,R; non-trivial: attack fraction in [0.05,0.95] and >=2 distinct '
                'degrees. (pref-mix) same distributions with P_n(k\'|k)=k\'P(k\')/<k>: EBCM_pref_mix == EBCM_uniform_introduction and '
                'EBCM_pref_mix_discrete == EBCM_discrete_uniform_introduction. (regular) circulant d-regular graphs d=1..5, n<=8: four '
                'pairwise-level and three mean-field-level models coincide, SIS and SIR.')
    ctx.assumptions = ['tolerance 2e-4 N where a vode/adams path is involved, 5e-5 N otherwise, 1e-8 N for the discrete maps',
                       'uniformly random initial infection (rho); tau*kmax*(tmax-tmin) <= 3 (no exhausted susceptible class)']
    only = getattr(ctx, 'only', None)
    if not only or 'hierarchy' in only:
        run_hypothesis(ctx, 'hierarchy', hier_case(), prop_hier, 400 if quick else 5000)
        run_hypothesis(ctx, 'hierarchy', hier_big_case(), prop_hier, 12 if quick else 200, rounds=2, case_timeout=300)
    if not only or 'pref-mix' in only:
        run_hypothesis(ctx, 'pref-mix', hier_case(), prop_prefmix, 300 if quick else 5000)
    if not only or 'regular' in only:
        run_hypothesis(ctx, 'regular', regular_case(), prop_regular, 200 if quick else 3000)
