"""C05 - requested initial conditions are what the simulation starts from.

Hypothesis over the ten SIR/SIS simulators and wrappers: graph with any label scheme, disjoint I0/R0, every container
type / single-node form / positional-vs-keyword passing, rho values, tmin, both return modes.
Oracle: row 0 == (tmin, N-|I0|-|R0|, |I0|, |R0|); per-node statuses at tmin; initially recovered nodes never infected;
order-preserving passing forms give identical output under identical seeds; rho => exactly int(round(N*rho)) distinct
infected; basic_discrete_SIR == discrete_SIR(args=(p,)) under the same seed; rho together with initial_infecteds =>
EoNError; get_infected_nodes never returns an initially recovered node.
"""
import random
import numpy as np
from hypothesis import strategies as st

from ..runner import Failure, Result, run_hypothesis, exc_signature
from .. import simrun, oracles, gen

ID = 'C05'
LEVEL = 'exploration'
INF = float('inf')

SIMS = ['discrete_SIR', 'basic_discrete_SIR', 'percolation_based_discrete_SIR', 'basic_discrete_SIS', 'fast_SIR',
        'fast_nonMarkov_SIR', 'fast_SIS', 'fast_nonMarkov_SIS', 'Gillespie_SIR', 'Gillespie_SIS']
# documented positional order after G (from the docstrings / published signatures)
POSITIONAL = {
    'fast_SIR': ['tau', 'gamma', 'initial_infecteds', 'initial_recovereds', 'rho', 'tmin', 'tmax'],
    'Gillespie_SIR': ['tau', 'gamma', 'initial_infecteds', 'initial_recovereds', 'rho', 'tmin', 'tmax'],
    'fast_SIS': ['tau', 'gamma', 'initial_infecteds', 'rho', 'tmin', 'tmax'],
    'Gillespie_SIS': ['tau', 'gamma', 'initial_infecteds', 'rho', 'tmin', 'tmax'],
    'basic_discrete_SIR': ['p', 'initial_infecteds', 'initial_recovereds', 'rho', 'tmin', 'tmax'],
    'percolation_based_discrete_SIR': ['p', 'initial_infecteds', 'initial_recovereds', 'rho', 'tmin', 'tmax'],
    'basic_discrete_SIS': ['p', 'initial_infecteds', 'rho', 'tmin', 'tmax'],
}
SINGLE_R0_DOCUMENTED = {'discrete_SIR', 'basic_discrete_SIR', 'percolation_based_discrete_SIR'}


def convert(nodes, form):
    if form == 'list':
        return list(nodes)
    if form == 'tuple':
        return tuple(nodes)
    if form == 'set':
        return set(nodes)
    if form == 'frozenset':
        return frozenset(nodes)
    if form == 'single':
        return nodes[0]
    if form == 'range':
        return range(nodes[0], nodes[-1] + 1)
    if form == 'array':
        return np.array(nodes)
    if form == 'dictkeys':
        return {u: 1 for u in nodes}.keys()
    if form == 'iter':
        return iter(list(nodes))
    if form == 'generator':
        return (u for u in list(nodes))
    raise ValueError(form)


def call_variant(case, full, I0form='list', R0form='list', positional=False, rho=None, give_I0=True):
    """call the simulator passing the initial sets in the requested form"""
    import EoN
    sim = case['sim']
    G = oracles.build_graph(case['gc'])
    random.seed(case['seed'])
    np.random.seed(case['seed'] % 2 ** 32)
    I0 = [oracles.tolabel(u) for u in case['I0']]
    R0 = [oracles.tolabel(u) for u in case.get('R0') or []]
    vals = {'tau': case['tau'], 'gamma': case['gamma'], 'p': case['p'], 'tmin': case['tmin'], 'tmax': simrun.tmax_of(case),
            'rho': rho, 'initial_infecteds': convert(I0, I0form) if give_I0 else None,
            'initial_recovereds': convert(R0, R0form) if R0 else None}
    f = getattr(EoN, sim)
    if positional and sim in POSITIONAL:
        args = [vals[k] for k in POSITIONAL[sim]]
        kw = {'return_full_data': full}
        if sim in simrun.WEIGHTED:
            if case.get('ew') is not None:
                kw['transmission_weight'] = case['ew']
            if case.get('nw') is not None:
                kw['recovery_weight'] = case['nw']
        return f(G, *args, **kw)
    kw = dict(tmin=vals['tmin'], tmax=vals['tmax'], return_full_data=full)
    if vals['initial_infecteds'] is not None:
        kw['initial_infecteds'] = vals['initial_infecteds']
    if rho is not None:
        kw['rho'] = rho
    if vals['initial_recovereds'] is not None and sim in simrun.HAS_R0:
        kw['initial_recovereds'] = vals['initial_recovereds']
    if sim in simrun.WEIGHTED:
        if case.get('ew') is not None:
            kw['transmission_weight'] = case['ew']
        if case.get('nw') is not None:
            kw['recovery_weight'] = case['nw']
        return f(G, case['tau'], case['gamma'], **kw)
    if sim in ('fast_nonMarkov_SIR', 'fast_nonMarkov_SIS'):
        trans, rec = simrun.make_rules(case)
        return f(G, trans_time_fxn=trans, rec_time_fxn=rec, **kw)
    if sim == 'discrete_SIR':
        return f(G, args=(case['p'],), **kw)
    return f(G, case['p'], **kw)


def digest_out(case, out, full):
    if full:
        nodes = [oracles.tolabel(u) for u in case['gc']['nodes']]
        return ([(tuple(float(x) for x in out.node_history(u)[0]), tuple(out.node_history(u)[1])) for u in nodes],
                [(float(t), u, v) for t, u, v in out.transmissions()])
    return [[float(x) for x in col] for col in out]


def check_initial(case, out, full, I0, R0, name):
    """row 0 and per-node statuses at tmin"""
    fails = []
    nodes = [oracles.tolabel(u) for u in case['gc']['nodes']]
    N = len(nodes)
    tmin = case['tmin']
    sis = simrun.KIND[case['sim']] == 'SIS'
    want = {'S': N - len(I0) - len(R0), 'I': len(I0)}
    if not sis:
        want['R'] = len(R0)
    t, D = simrun.as_series(case, out, full)
    got = {s: D[s][0] for s in want}
    if t[0] != tmin or got != want:
        which = 'with-initial-recovereds' if R0 else 'no-R0'
        fails.append(Failure('%s:row0:%s' % (name, which), 'row 0 is t=%r %r; requested tmin=%r %r (I0=%r R0=%r)' % (t[0], got, tmin, want, I0, R0)))
    if full:
        stt = out.get_statuses(time=tmin)
        bad = [(u, stt.get(u)) for u in nodes
               if stt.get(u) != ('I' if u in I0 else 'R' if u in R0 else 'S')]
        if bad:
            fails.append(Failure('%s:statuses-at-tmin' % name, 'get_statuses(time=tmin) gives %r for nodes that should be %s'
                                 % (bad[:4], 'I on I0, R on R0, S elsewhere')))
        bad2 = [u for u in nodes[:6] if out.node_status(u, tmin) != ('I' if u in I0 else 'R' if u in R0 else 'S')]
        if bad2 and not bad:
            fails.append(Failure('%s:node_status-at-tmin' % name, 'node_status(u, tmin) wrong for %r' % (bad2,)))
        for u in R0:
            ts, ss = out.node_history(u)
            if list(ss) != ['R']:
                fails.append(Failure('%s:recovered-node-changes' % name, 'initially recovered node %r has history %r' % (u, (list(ts), list(ss)))))
                break
        tgt = [x for x in out.transmissions() if x[2] in R0]
        if tgt:
            fails.append(Failure('%s:recovered-node-infected' % name, 'transmission %r targets an initially recovered node' % (tgt[0],)))
        src_none = [x for x in out.transmissions() if x[1] is None and x[2] not in I0]
        if src_none:
            fails.append(Failure('%s:sourceless-transmission' % name, 'transmission without source %r is not to an initially infected node' % (src_none[0],)))
    return fails


@st.composite
def ic_case(draw, sim=None):
    case = draw(simrun.sim_case(sims=([sim] if sim else SIMS), nmax=12, labels=('int', 'int', 'perm', 'str', 'tuple')))
    sim = case['sim']
    if sim == 'fast_nonMarkov_SIR' and case['rule']['kind'] == 'table':
        # events exactly at tmin (zero delay / zero duration) are a C10/C11 matter: the full-data summary has one row per time
        case['rule']['dur'] = [0.5 if d == 0 else d for d in case['rule']['dur']]
        case['rule']['delay'] = [0.5 if d == 0 else d for d in case['rule']['delay']]
    nodes = [oracles.tolabel(u) for u in case['gc']['nodes']]
    int_identity = all(isinstance(u, int) for u in nodes)
    I0 = [oracles.tolabel(u) for u in case['I0']]
    forms = ['list', 'tuple', 'set', 'frozenset', 'dictkeys']
    if len(I0) == 1:
        forms += ['single', 'single', 'single']
    if int_identity:
        forms += ['array']
        if draw(st.booleans()) and len(nodes) >= 2:
            # make I0 a contiguous run so that range() is a valid way of passing it
            a = draw(st.integers(min(nodes), max(nodes)))
            b = draw(st.integers(a, min(max(nodes), a + 3)))
            I0 = [u for u in range(a, b + 1) if u in nodes]
            if I0 == list(range(a, b + 1)):
                case['I0'] = I0
                case['R0'] = [u for u in case['R0'] if u not in I0]
                forms = ['range', 'range', 'array', 'list']
    case['I0form'] = draw(st.sampled_from(forms))
    R0forms = ['list', 'tuple', 'set', 'frozenset']
    if len(case['R0']) == 1 and sim in SINGLE_R0_DOCUMENTED:
        R0forms += ['single', 'single']
    if sim in simrun.ONE_SHOT_R0:
        R0forms += ['iter', 'generator']      # 'iterable of nodes': a one-shot iterator is consumed exactly once by these two
    case['R0form'] = draw(st.sampled_from(R0forms))
    case['positional'] = draw(st.booleans()) and sim in POSITIONAL
    N = len(nodes)
    if draw(st.booleans()):
        # N*rho exactly (or within an ulp of) a half-integer: rounding ties are where int(round(.)) differs from its look-alikes
        k = draw(st.integers(0, max(0, N - 1)))
        case['rho'] = min(1.0, (k + 0.5) / N)
    else:
        case['rho'] = draw(st.sampled_from([0.1, 0.25, 0.5, 0.3, 0.75, 1.0, 0.05, 0.45]))
    return case


ORDERED = {'list', 'tuple', 'range', 'array', 'single', 'dictkeys', 'iter', 'generator'}


def prop_ic(case):
    import EoN
    sim = case['sim']
    fails = []
    nodes = [oracles.tolabel(u) for u in case['gc']['nodes']]
    N = len(nodes)
    I0 = [oracles.tolabel(u) for u in case['I0']]
    R0 = [oracles.tolabel(u) for u in case.get('R0') or []] if sim in simrun.HAS_R0 else []
    c = dict(case)
    c['R0'] = R0
    name = sim
    base = {}
    for full in (False, True):
        mode = 'full' if full else 'arrays'
        try:
            out = call_variant(c, full)
            base[full] = digest_out(c, out, full)
            fails += check_initial(c, out, full, I0, R0, '%s:%s' % (name, mode))
        except Exception as e:
            fails.append(Failure('%s:%s:exception:%s' % (name, mode, exc_signature(e)), 'baseline call (lists, keywords) raised %r' % (e,)))
    # passing form variant
    form, rform, pos = case['I0form'], case['R0form'], case['positional']
    for full in (False, True):
        mode = 'full' if full else 'arrays'
        try:
            out = call_variant(c, full, I0form=form, R0form=rform, positional=pos)
            sigform = 'form=%s/%s%s' % (form, rform, '/positional' if pos else '')
            f2 = check_initial(c, out, full, I0, R0, '%s:%s:%s' % (name, mode, sigform))
            fails += f2
            if not f2 and full in base and form in ORDERED and rform in ORDERED | {'list'} and rform not in ('set', 'frozenset'):
                if digest_out(c, out, full) != base[full]:
                    fails.append(Failure('%s:%s:form-changes-output:%s' % (name, mode, sigform),
                                         'passing I0 as %s / R0 as %s%s gives a different epidemic than lists by keyword under the same seed'
                                         % (form, rform, ', positionally' if pos else '')))
        except Exception as e:
            fails.append(Failure('%s:%s:form=%s/%s%s:exception:%s' % (name, mode, form, rform, '/positional' if pos else '', exc_signature(e)),
                                 'passing I0 as %s (%r), R0 as %s%s raised %r' % (form, convert(I0, form) if form != 'dictkeys' else 'dict keys', rform,
                                                                                    ', positionally' if pos else '', e)))
    # rho
    rho = case['rho']
    k = int(round(N * rho))
    for full in (False, True):
        mode = 'full' if full else 'arrays'
        try:
            out = call_variant(c, full, rho=rho, give_I0=False, R0form='list') if not R0 else None
            if out is None:
                break
            t, D = simrun.as_series(c, out, full)
            got = (D['I'][0], D['S'][0]) + ((D['R'][0],) if 'R' in D else ())
            want = (k, N - k) + ((0,) if 'R' in D else ())
            if got != want or t[0] != case['tmin']:
                fails.append(Failure('%s:%s:rho-count' % (name, mode), 'rho=%r on N=%d: row 0 (I,S[,R])=%r, expected %r = int(round(N*rho)) infected'
                                     % (rho, N, got, want)))
            if full:
                stt = out.get_statuses(time=case['tmin'])
                inf = [u for u in nodes if stt[u] == 'I']
                if len(inf) != k or any(stt[u] not in ('S', 'I') for u in nodes):
                    fails.append(Failure('%s:full:rho-statuses' % name, 'rho=%r on N=%d: %d nodes infected at tmin (%r), expected %d'
                                         % (rho, N, len(inf), inf[:6], k)))
        except Exception as e:
            fails.append(Failure('%s:%s:rho:exception:%s' % (name, mode, exc_signature(e)), 'rho=%r (N=%d, k=%d) raised %r' % (rho, N, k, e)))
    # rho and initial_infecteds together must be rejected
    for r, label in ((rho, 'rho'), (0.0, 'rho=0.0')):
        for iform in ('list', 'single') if len(I0) == 1 else ('list',):
            try:
                call_variant(c, False, I0form=iform, rho=r)
                fails.append(Failure('%s:accepts-rho-and-initial_infecteds:%s:%s' % (name, label, iform if iform == 'list' else 'single-node'),
                                     'rho=%r together with initial_infecteds=%r was accepted silently' % (r, convert(I0, iform))))
            except EoN.EoNError:
                pass
            except Exception as e:
                fails.append(Failure('%s:rho-and-initial_infecteds:wrong-exception:%s' % (name, type(e).__name__),
                                     'rho=%r with initial_infecteds raised %r instead of EoNError' % (r, e)))
    # wrapper equivalence
    if sim == 'basic_discrete_SIR':
        try:
            c2 = dict(c)
            c2['sim'] = 'discrete_SIR'
            for full in (False, True):
                a = digest_out(c, call_variant(c, full), full)
                b = digest_out(c2, call_variant(c2, full), full)
                if a != b:
                    fails.append(Failure('basic_discrete_SIR:differs-from-discrete_SIR', 'basic_discrete_SIR(G,p,...) != discrete_SIR(G,args=(p,),...) under the same seed (%s)'
                                         % ('full' if full else 'arrays')))
        except Exception as e:
            fails.append(Failure('basic_discrete_SIR:wrapper:exception:%s' % exc_signature(e), 'raised %r' % (e,)))
    nt = bool(R0) or form not in ('list',) or case['tmin'] != 0
    x = N * rho
    classes = [sim, 'I0form=' + form] + (['rho-rounding-tie'] if abs(x - int(x) - 0.5) < 1e-9 else []) + (['R0'] if R0 else []) + (['positional'] if pos else []) + ['R0form=' + rform if R0 else 'noR0']
    return Result(fails, nontrivial=nt, classes=classes)


# get_infected_nodes
@st.composite
def gin_case(draw):
    gc = draw(gen.graph_case(2, 10, labels=('int', 'str', 'tuple'), weighted=False))
    I0, R0 = draw(gen.initial_sets(gc['nodes']))
    return {'gc': gc, 'I0': I0, 'R0': R0, 'tau': draw(gen.rates), 'gamma': draw(gen.rates), 'seed': draw(st.integers(0, 10 ** 6)),
            'single_R0': draw(st.booleans()), 'single_I0': draw(st.booleans())}


def prop_gin(case):
    import EoN
    G = oracles.build_graph(case['gc'])
    nodes, adj = oracles.adjacency(case['gc'])
    I0 = [oracles.tolabel(u) for u in case['I0']]
    R0 = [oracles.tolabel(u) for u in case['R0']]
    random.seed(case['seed'])
    fails = []
    i_arg = I0[0] if (len(I0) == 1 and case['single_I0']) else list(I0)
    r_arg = None if not R0 else (R0[0] if (len(R0) == 1 and case['single_R0']) else list(R0))
    try:
        res = EoN.get_infected_nodes(G, case['tau'], case['gamma'], initial_infecteds=i_arg, initial_recovereds=r_arg)
        res = set(res)
        if res & set(R0):
            fails.append(Failure('get_infected_nodes:returns-recovered', 'result %r contains initially recovered %r' % (res, set(R0) & res)))
        if not set(I0) <= res:
            fails.append(Failure('get_infected_nodes:misses-initial', 'result %r misses initially infected %r' % (res, set(I0) - res)))
        succ = {u: [v for v in adj[u] if v not in R0] for u in nodes}
        reach = set()
        for u in I0:
            reach |= oracles.reach(succ, u)
        if not res <= reach:
            fails.append(Failure('get_infected_nodes:unreachable', 'result %r contains nodes not reachable from I0 avoiding R0 (%r)' % (res, res - reach)))
        if case['tau'] == 0 and case['gamma'] > 0 and res != set(I0):
            fails.append(Failure('get_infected_nodes:tau=0', 'tau=0, gamma=%r: nobody can be infected, result %r, initial infecteds %r' % (case['gamma'], res, I0)))
        if case['gamma'] == 0 and case['tau'] > 0 and res != reach:
            fails.append(Failure('get_infected_nodes:gamma=0', 'gamma=0, tau=%r: every reachable node is infected eventually, result %r, reachable %r' % (case['tau'], res, reach)))
    except Exception as e:
        fails.append(Failure('get_infected_nodes:exception:%s' % exc_signature(e), 'raised %r' % (e,)))
    return Result(fails, nontrivial=bool(R0), classes=['gin'] + (['R0'] if R0 else []))


def replay(ctx, sub, case):
    if sub == 'get_infected_nodes':
        return prop_gin(case).failures
    return prop_ic(case).failures


def run(ctx):
    quick = ctx.tier == 'quick'
    ctx.rule = ('Hypothesis: simulator (10 SIR/SIS simulators and wrappers) x graph n<=12 (int/permuted/str/tuple labels) x disjoint I0/R0 x '
                'passing form (list/tuple/set/frozenset/dict-keys/single node/range/numpy array; positional by documented order) x rho x tmin x '
                'seed x both return modes. Non-trivial: R0 non-empty, or a non-list container, or tmin != 0; distinct by case digest. '
                'Sub-check get_infected_nodes: result excludes R0, contains I0, lies in the out-component of I0 avoiding R0.')
    ctx.assumptions = ['single node as initial_recovereds only where documented (discrete_SIR family, get_infected_nodes)',
                       'output equality across passing forms is asserted only for order-preserving containers (a set may legitimately '
                       'reorder the candidate lists)', 'positional order taken from the published signatures, not from inspect']
    only = getattr(ctx, 'only', None)
    if not only or 'forms' in only:
        for sim in SIMS:
            run_hypothesis(ctx, 'forms', ic_case(sim), prop_ic, 80 if quick else 3000, rounds=4)
    if not only or 'get_infected_nodes' in only:
        run_hypothesis(ctx, 'get_infected_nodes', gin_case(), prop_gin, 300 if quick else 5000)
