"""C19 - calls do not modify their arguments and can be repeated.

Hypothesis: every public entry point (12 simulators via simrun, ~50 analytic entry points via analytic_cases) with
generated arguments; deep snapshot of every argument object before/after (graph nodes, edges, all attribute dicts,
graph attributes; arrays: dtype, shape, values; lists/sets/dicts; model-specification graphs), then a second call
with the *same objects*: it must succeed and, for the deterministic ODE models, return identical results.
"""
import numpy as np
import networkx as nx
from hypothesis import strategies as st

from ..runner import Failure, Result, run_hypothesis, exc_signature, CallBudget, RunawayError
from .. import simrun, analytic_cases as ac, oracles

ID = 'C19'
LEVEL = 'exploration'


def snapshot(x, depth=0):
    if isinstance(x, (nx.Graph, nx.DiGraph)):
        return ('graph', x.is_directed(), [(repr(u), snapshot(dict(d), depth + 1)) for u, d in x.nodes(data=True)],
                [(repr(u), repr(v), snapshot(dict(d), depth + 1)) for u, v, d in x.edges(data=True)], snapshot(dict(x.graph), depth + 1))
    if isinstance(x, np.ndarray):
        return ('array', str(x.dtype), tuple(x.shape), x.tobytes() if x.dtype != object else repr(x.tolist()))
    if isinstance(x, dict):
        return ('dict', [(repr(k), snapshot(v, depth + 1)) for k, v in x.items()])
    if isinstance(x, (list, tuple)):
        return (type(x).__name__, [snapshot(v, depth + 1) for v in x])
    if isinstance(x, (set, frozenset)):
        return (type(x).__name__, sorted(repr(v) for v in x))
    if callable(x):
        return ('callable',)
    if isinstance(x, range):
        return ('range', x.start, x.stop, x.step)
    return ('value', repr(x))


def describe_change(before, after, path=''):
    if before == after:
        return None
    if isinstance(before, tuple) and isinstance(after, tuple) and before and after and before[0] == after[0]:
        if before[0] == 'array':
            if before[2] != after[2]:
                return '%s: array shape %r -> %r' % (path, before[2], after[2])
            if before[1] != after[1]:
                return '%s: array dtype %s -> %s' % (path, before[1], after[1])
            return '%s: array values changed' % path
        if before[0] == 'graph':
            names = ['', 'directed', 'nodes/node attributes', 'edges/edge attributes', 'graph attributes']
            for i in range(1, 5):
                if before[i] != after[i]:
                    return '%s: graph %s changed' % (path, names[i])
        if before[0] in ('list', 'tuple') and len(before[1]) == len(after[1]):
            for i, (a, b) in enumerate(zip(before[1], after[1])):
                d = describe_change(a, b, '%s[%d]' % (path, i))
                if d:
                    return d
        if before[0] == 'dict':
            return '%s: dict changed (%d -> %d entries)' % (path, len(before[1]), len(after[1]))
    return '%s: %s changed' % (path, before[0] if isinstance(before, tuple) and before else 'value')


def same_result(a, b):
    try:
        if isinstance(a, (tuple, list)):
            return len(a) == len(b) and all(same_result(x, y) for x, y in zip(a, b))
        if isinstance(a, dict):
            return set(a) == set(b) and all(same_result(a[k], b[k]) for k in a)
        x, y = np.asarray(a), np.asarray(b)
        return x.shape == y.shape and bool(np.all((x == y) | (np.isnan(x.astype(float)) & np.isnan(y.astype(float)))))
    except Exception:
        return True


def check_purity(name, f, args, kw, deterministic, reseed=None):
    fails = []
    objs = {'arg%d' % i: a for i, a in enumerate(args)}
    objs.update(kw)
    before = {k: snapshot(v) for k, v in objs.items()}
    res1 = None
    try:
        if reseed:
            reseed()
        with np.errstate(all='ignore'):
            res1 = f(*args, **kw)
    except RunawayError as e:
        return [Failure('%s:non-termination' % name, str(e))], False
    except Exception as e:
        return [], False          # rejected / crashing inputs are other properties' business
    after = {k: snapshot(v) for k, v in objs.items()}
    for k in objs:
        d = describe_change(before[k], after[k], k)
        if d:
            fails.append(Failure('%s:mutates-argument:%s' % (name, k if not k.startswith('arg') else 'positional-%s' % k[3:]),
                                 '%s modified its argument %s' % (name, d)))
            break
    try:
        if reseed:
            reseed()
        with np.errstate(all='ignore'):
            res2 = f(*args, **kw)
        if deterministic and not same_result(res1, res2):
            fails.append(Failure('%s:second-call-differs' % name, 'calling %s twice with the same argument objects gives different results' % name))
    except Exception as e:
        fails.append(Failure('%s:second-call-fails:%s' % (name, type(e).__name__), 'the first call succeeded, the second call with the same argument objects raised %r' % (e,)))
    # a frozen graph (nx.freeze) refuses structural modification: a call that edits the caller's graph and puts it back
    # afterwards passes the snapshot comparison but not this one
    if not fails and any(isinstance(a, nx.Graph) for a in args):
        args3 = [nx.freeze(a.copy()) if isinstance(a, nx.Graph) else a for a in args]
        try:
            if reseed:
                reseed()
            with np.errstate(all='ignore'):
                f(*args3, **kw)
        except nx.NetworkXError as e:
            if 'rozen' in str(e):
                fails.append(Failure('%s:modifies-graph-structure(frozen-graph)' % name, '%s raised %r on a frozen copy of a graph it accepts' % (name, e)))
        except Exception:
            pass
    return fails, True


def prop_ode(case):
    import EoN
    e = ac.ENTRIES[case['entry']]
    ic = ac.make_ic(case)
    if not ic.regular_domain() or (e.singular and e.singular(ic)):
        return Result([], classes=['singular'])
    G = oracles.build_graph(case['gc'])
    fails = []
    ran = False
    mutable = False
    for rfd in (False, True):
        f, args, kw = e.build(EoN, G, case, ic, rfd)
        mutable = mutable or any(isinstance(a, (np.ndarray, nx.Graph, list, dict)) for a in list(args) + list(kw.values()))
        fl, ok = check_purity(e.name, f, args, kw, deterministic=True)
        fails += fl
        ran = ran or ok
    uniq = {}
    for f_ in fails:
        uniq.setdefault(f_.signature, f_)
    return Result(list(uniq.values()), nontrivial=ran and mutable, classes=[e.level] + (['array-args'] if e.level == 'direct' else ['graph-arg']))


def prop_sim(case):
    import random
    sim = case['sim']
    fails = []
    ran = False
    for full in (False, True):
        f, args, kw = simrun.build(case, full, budget=CallBudget(400000))
        if case.get('np0d') and isinstance(args[0], nx.Graph):
            # weights stored as 0-d numpy arrays (mutable, unlike floats): in-place arithmetic on them would edit the caller's graph
            for _u, _v, d in args[0].edges(data=True):
                for k_ in list(d):
                    d[k_] = np.array(d[k_], dtype=float)
            for _u, d in args[0].nodes(data=True):
                for k_ in list(d):
                    d[k_] = np.array(d[k_], dtype=float)
        if case.get('overlap') and isinstance(kw.get('initial_infecteds'), list) and isinstance(kw.get('initial_recovereds'), list):
            # the docstrings promise no consistency test between the two collections: a node may be listed in both
            kw['initial_recovereds'] = kw['initial_recovereds'] + kw['initial_infecteds'][:1]

        def reseed():
            random.seed(case['seed']); np.random.seed(case['seed'] % 2 ** 32)
        stateless = (case.get('rule') or {}).get('kind') != 'table' or sim != 'fast_nonMarkov_SIS'
        fl, ok = check_purity(sim, f, args, kw, deterministic=False, reseed=reseed)
        fails += fl
        ran = ran or ok
    uniq = {}
    for f_ in fails:
        uniq.setdefault(f_.signature, f_)
    return Result(list(uniq.values()), nontrivial=ran, classes=[sim] + (['0-d-array-weights'] if case.get('np0d') else []) + (['I0-R0-overlap'] if case.get('overlap') else []))


@st.composite
def c19_sim_case(draw, sim):
    case = draw(simrun.sim_case(sims=[sim], nmax=12))
    if draw(st.integers(0, 4)) == 0:
        case['np0d'] = True
    if case.get('R0') and sim in ('fast_SIR', 'fast_nonMarkov_SIR') and draw(st.integers(0, 3)) == 0:
        # only where the docstring says that the two collections are not tested for consistency; elsewhere a node listed in both is a
        # contradictory request (outside the domain: the unchanged Gillespie_SIR does not terminate on it when gamma = 0)
        case['overlap'] = True
    return case


def prop_helpers(case):
    """percolation-based functions of the simulation module (they take the caller's graph and rule tables)"""
    import random
    import EoN
    from . import c17
    gc = case['gc']
    nodes, adj = oracles.adjacency(gc)
    pairs = [(u, v) for u in nodes for v in adj[u]]
    G = oracles.build_graph(gc)
    for u in nodes:
        G.nodes[u]['age'] = 3
    G.graph['name'] = 'caller graph'
    xi = dict(zip(nodes, case['xi'])); zeta = dict(zip(nodes, case['zeta']))
    rule = c17.transmission_rule(case['rule'])
    dur = {u: c17._num(d) for u, d in zip(nodes, case['dur'])}
    delay = {p: c17._num(d) for p, d in zip(pairs, case['delay'])}
    I0 = [nodes[0]]
    R0 = [nodes[-1]] if len(nodes) > 2 else []
    H = nx.DiGraph()
    H.add_nodes_from(nodes)
    H.add_edges_from(p for p in pairs if rule(xi[p[0]], zeta[p[1]]))
    calls = [
        ('get_infected_nodes', EoN.get_infected_nodes, [G, case['tau'], case['gamma']], {'initial_infecteds': I0, 'initial_recovereds': R0}),
        ('percolate_network', EoN.percolate_network, [G, case['p']], {}),
        ('directed_percolate_network', EoN.directed_percolate_network, [G, case['tau'], case['gamma']], {}),
        ('estimate_SIR_prob_size', EoN.estimate_SIR_prob_size, [G, case['p']], {}),
        ('estimate_directed_SIR_prob_size', EoN.estimate_directed_SIR_prob_size, [G, case['tau'], case['gamma']], {}),
        ('estimate_SIR_prob_size_from_dir_perc', EoN.estimate_SIR_prob_size_from_dir_perc, [H], {}),
        ('nonMarkov_directed_percolate_network', EoN.nonMarkov_directed_percolate_network, [G, xi, zeta, rule], {}),
        ('estimate_nonMarkov_SIR_prob_size', EoN.estimate_nonMarkov_SIR_prob_size, [G, xi, zeta, rule], {}),
        ('nonMarkov_directed_percolate_network_with_timing', EoN.nonMarkov_directed_percolate_network_with_timing,
         [G, lambda u, v: delay[(u, v)], lambda u: dur[u]], {}),
        ('estimate_nonMarkov_SIR_prob_size_with_timing', EoN.estimate_nonMarkov_SIR_prob_size_with_timing,
         [G, lambda u, v: delay[(u, v)], lambda u: dur[u]], {}),
    ]
    fails = []
    for name, f, args, kw in calls:
        def reseed():
            random.seed(case['seed'])
        fl, ok = check_purity(name, f, args, kw, deterministic=False, reseed=reseed)
        fails += fl
    return Result(fails, nontrivial=len(pairs) >= 2, classes=['helpers'])


def replay(ctx, sub, case):
    return {'ode': prop_ode, 'simulators': prop_sim, 'helpers': prop_helpers}[sub](case).failures


def run(ctx):
    quick = ctx.tier == 'quick'
    ctx.rule = ('Hypothesis: (helpers) the ten percolation-based functions of the simulation module on a caller graph with node/graph attributes and rule tables; (ode) every analytic entry point (%d) with arguments built from a generated graph / hand-counted class arrays (both return '
                'modes); (simulators) the 12 simulators with generated graphs (edge/node attributes present), initial-set lists, specification '
                'graphs and status dicts. Deep snapshots of all argument objects before/after the first call; a second call with the same objects. '
                'Non-trivial: the call ran and had at least one mutable argument (graph, array, list, dict).' % len(ac.ENTRIES))
    ctx.assumptions = ['initial-status dicts are plain dicts', 'calls that are rejected or crash are not this property\'s business (C06/C04)',
                       'bitwise-identical repeat results are required only for the deterministic ODE models']
    only = getattr(ctx, 'only', None)
    if not only or 'ode' in only:
        for nm in sorted(ac.ENTRIES):
            run_hypothesis(ctx, 'ode', ac.analytic_case(names=[nm], selfloops=True, weights=True, dense=True), prop_ode, 24 if quick else 300, rounds=3)
    if not only or 'simulators' in only:
        for sim in simrun.SIMS:
            run_hypothesis(ctx, 'simulators', c19_sim_case(sim), prop_sim,
                           (60 if sim.startswith('Gillespie_s') else 30) if quick else 1500, rounds=3)
    if not only or 'helpers' in only:
        from . import c17
        run_hypothesis(ctx, 'helpers', c17.contact_case(), prop_helpers, 150 if quick else 5000, rounds=4)
