"""Uniform way to call every simulator from a JSON-able case (used by C04, C05, C09, C10, C18, C19).

A case: {'sim', 'gc', 'tau', 'gamma', 'p', 'ew', 'nw', 'I0', 'R0', 'tmin', 'tmax', 'seed', 'rule', 'spec', 'cmodel'}.
call(case, full) seeds random / numpy.random from case['seed'] and calls the simulator on a freshly built graph.
"""
import random
import numpy as np
import networkx as nx
from hypothesis import strategies as st

from . import oracles, gen
from .runner import CallBudget

INF = float('inf')

SIMS = ['fast_SIR', 'fast_SIS', 'fast_nonMarkov_SIR', 'fast_nonMarkov_SIS', 'Gillespie_SIR', 'Gillespie_SIS',
        'Gillespie_simple_contagion', 'Gillespie_complex_contagion', 'discrete_SIR', 'basic_discrete_SIR',
        'basic_discrete_SIS', 'percolation_based_discrete_SIR']
KIND = {'fast_SIR': 'SIR', 'fast_nonMarkov_SIR': 'SIR', 'Gillespie_SIR': 'SIR', 'discrete_SIR': 'SIR',
        'basic_discrete_SIR': 'SIR', 'percolation_based_discrete_SIR': 'SIR',
        'fast_SIS': 'SIS', 'fast_nonMarkov_SIS': 'SIS', 'Gillespie_SIS': 'SIS', 'basic_discrete_SIS': 'SIS',
        'Gillespie_simple_contagion': 'generic', 'Gillespie_complex_contagion': 'generic'}
DISCRETE = {'discrete_SIR', 'basic_discrete_SIR', 'basic_discrete_SIS', 'percolation_based_discrete_SIR'}
WEIGHTED = {'fast_SIR', 'fast_SIS', 'Gillespie_SIR', 'Gillespie_SIS'}
HAS_R0 = {'fast_SIR', 'fast_nonMarkov_SIR', 'Gillespie_SIR', 'discrete_SIR', 'basic_discrete_SIR',
          'percolation_based_discrete_SIR'}
SINGLE_NEIGHBOUR = [s for s in SIMS if s != 'Gillespie_complex_contagion']
# initial_recovereds is documented as 'iterable of nodes' and is consumed exactly once by these two (observed on the pinned tree)
ONE_SHOT_R0 = {'fast_SIR', 'fast_nonMarkov_SIR'}

# canonical generic models: (statuses, spontaneous [(A,B,rate,mode)], induced [(A,B,C,rate,mode)])
SPECS = [
    (['S', 'I'], [['I', 'S', 1.0, None]], [['I', 'S', 'I', 2.0, None]]),
    (['S', 'I', 'R'], [['I', 'R', 1.0, 'label']], [['I', 'S', 'I', 1.5, 'label']]),
    (['S', 'I', 'R'], [['I', 'R', 1.0, None], ['R', 'S', 0.5, None]], [['I', 'S', 'I', 2.0, None]]),
    (['S', 'E', 'I', 'R'], [['E', 'I', 0.6, None], ['I', 'R', 0.4, None]], [['I', 'S', 'E', 1.0, None]]),
    (['S', 'I', 'J', 'R'], [['I', 'R', 1.0, None], ['J', 'R', 0.8, None]], [['I', 'S', 'I', 1.0, None], ['J', 'S', 'J', 1.5, None]]),
    # Maki-Thompson rumour model: the inducing status equals the induced-from status in ('I','I')->('I','R')
    (['S', 'I', 'R'], [], [['I', 'S', 'I', 1.0, None], ['I', 'I', 'R', 1.0, None], ['R', 'I', 'R', 0.5, None]]),
    # rate_function on both kinds of transition (SIS with vaccination-like heterogeneity)
    (['S', 'I'], [['I', 'S', 1.0, 'fn']], [['I', 'S', 'I', 2.0, 'fn']]),
]
CMODELS = [
    (['I', 'A'], {'I': ['threshold', 1.0, 'A', 2, 1]}, {'I': 'A', 'A': 'I'}),
    (['S', 'I', 'R'], {'S': ['linear', 1.5, 'I', 1, 1], 'I': ['const', 1.0, 'I', 1, 1]}, {'S': 'I', 'I': 'R', 'R': 'S'}),
    (['S', 'I'], {'S': ['threshold', 2.0, 'I', 1, 2], 'I': ['const', 0.7, 'I', 1, 1]}, {'S': 'I', 'I': 'S'}),
    (['S', 'I', 'R'], {'S': ['linear', 0.1, 'I', 1, 1], 'I': ['const', 0.3, 'I', 1, 1]}, {'S': 'I', 'I': 'R', 'R': 'S'}),
    # attempts that may fail: an undecided node tries at rate 1 and adopts only if a neighbour has adopted, otherwise the event
    # leaves its status unchanged (the chooser answers the current status)
    (['U', 'A'], {'U': ['const', 1.0, 'A', 1, 1], 'A': ['const', 0.5, 'A', 1, 1]}, {'U': 'A', 'A': 'U'}, {'U': ['A', 1]}),
]


def statuses_of(case):
    k = KIND[case['sim']]
    if k == 'SIR':
        return ['S', 'I', 'R']
    if k == 'SIS':
        return ['S', 'I']
    if case['sim'] == 'Gillespie_simple_contagion':
        return list(SPECS[case['spec']][0])
    return list(CMODELS[case['cmodel']][0])


def legal_moves(case):
    """set of (old, new) status moves one node can make in one event"""
    k = KIND[case['sim']]
    if k == 'SIR':
        return {('S', 'I'), ('I', 'R')}
    if k == 'SIS':
        return {('S', 'I'), ('I', 'S')}
    if case['sim'] == 'Gillespie_simple_contagion':
        _, spont, induced = SPECS[case['spec']]
        return set((a, b) for a, b, _, _ in spont) | set((b, c) for _, b, c, _, _ in induced)
    cm = CMODELS[case['cmodel']]
    return set(cm[2].items()) | (set((a, a) for a in cm[3]) if len(cm) > 3 else set())


def population(case):
    """number of nodes that carry one of the reported statuses"""
    n = len(case['gc']['nodes'])
    if KIND[case['sim']] == 'generic':
        n -= len(set(i % n for i in case.get('bystanders') or []))
    return n


def tmax_of(case):
    return INF if case['tmax'] == 'inf' else case['tmax']


def initial_status(case):
    nodes = [oracles.tolabel(u) for u in case['gc']['nodes']]
    if 'IC' in case and KIND[case['sim']] == 'generic':
        ic = dict(zip(nodes, case['IC']))
        for i in case.get('bystanders') or []:
            ic[nodes[i % len(nodes)]] = 'V'       # e.g. vaccinated: a permanent status no rule mentions and return_statuses does not list
        return ic
    st_ = {u: 'S' for u in nodes}
    for u in case['I0']:
        st_[oracles.tolabel(u)] = 'I'
    for u in case.get('R0') or []:
        st_[oracles.tolabel(u)] = 'R'
    return st_


def _with_extra(case, IC):
    """IC is documented as a dict with IC[node] for the nodes of G; a dict made for a larger population (statuses for
    nodes that are not in G, e.g. G is the giant component) is such a dict."""
    for k, s_ in enumerate(case.get('ic_extra') or []):
        IC[('not-in-G', k)] = s_
    return IC


def make_rules(case, budget=None):
    """callbacks for the non-Markovian simulators from case['rule']"""
    rule = case['rule']
    nodes, adj = oracles.adjacency(case['gc'])
    tick = budget.tick if budget else (lambda: None)
    sis = case['sim'] == 'fast_nonMarkov_SIS'
    if rule['kind'] == 'exp':
        tau, gamma = case['tau'], case['gamma']
        horizon = tmax_of(case) - case['tmin']
        if not sis:
            def trans(u, v):
                tick()
                return random.expovariate(tau) if tau > 0 else INF

            def rec(u):
                tick()
                return random.expovariate(gamma) if gamma > 0 else INF
        else:
            def rec(u):
                tick()
                return random.expovariate(gamma) if gamma > 0 else INF

            def trans(u, v, duration):
                tick()
                out = []
                if tau <= 0:
                    return out
                t = random.expovariate(tau)
                while t < duration and t < horizon:     # attempts beyond tmax-tmin can never be reported
                    out.append(t)
                    t += random.expovariate(tau)
                return out
        return trans, rec
    # table
    dur = dict(zip(nodes, rule['dur']))
    pairs = [(u, v) for u in nodes for v in adj[u]]
    delay = dict(zip(pairs, rule['delay']))
    if not sis:
        def trans(u, v):
            tick()
            d = delay[(u, v)]
            return INF if d == 'inf' else d

        def rec(u):
            tick()
            d = dur[u]
            return INF if d == 'inf' else d
    else:
        def rec(u):
            tick()
            return dur[u]

        def trans(u, v, duration):
            tick()
            if u == v:
                return []       # self-loop: the simulator asks the rule about (u, u); no attempt on oneself
            return [d for d in delay[(u, v)] if d < duration]
    return trans, rec


def build_spec_graphs(case, G):
    statuses, spont, induced = SPECS[case['spec']]
    nwl = list(case['gc']['nw'])[0] if case['gc'].get('nw') else None
    ewl = list(case['gc']['ew'])[0] if case['gc'].get('ew') else None
    H = nx.DiGraph()
    H.add_nodes_from(statuses)
    nodes = [oracles.tolabel(u) for u in case['gc']['nodes']]
    pos = {u: i for i, u in enumerate(nodes)}
    for a, b, r, mode in spont:
        attrs = {'rate': r}
        if mode == 'label' and nwl is not None:
            attrs['weight_label'] = nwl
        elif mode == 'fn':
            attrs['rate_function'] = (lambda G_, node: 0.5 + (pos[node] % 3))
        H.add_edge(a, b, **attrs)
    J = nx.DiGraph()
    for a, b, c, r, mode in induced:
        attrs = {'rate': r}
        if mode == 'label' and ewl is not None:
            attrs['weight_label'] = ewl
        elif mode == 'fn':
            attrs['rate_function'] = (lambda G_, source, target: 0.25 + ((pos[source] + 2 * pos[target]) % 4) / 2.0)
        J.add_edge((a, b), (a, c), **attrs)
    if case.get('zero_rate_edges'):
        # transitions switched off in a parameter sweep: declared with rate 0, they can never fire
        a, b = statuses[-1], statuses[0]
        if not H.has_edge(a, b):
            H.add_edge(a, b, rate=0)
        if not J.has_edge((a, b), (a, a)) and a != b:
            J.add_edge((a, b), (a, a), rate=0)
    return H, J


# documented parameter order and defaults (from the docstrings / pinned signatures; deliberately a frozen copy: the order in which
# a simulator takes its arguments is part of its interface, and callers pass them positionally in this order)
INF_ = float('inf')
DOC_SIG = {
    'fast_SIR': [('G', None), ('tau', None), ('gamma', None), ('initial_infecteds', None), ('initial_recovereds', None), ('rho', None), ('tmin', 0), ('tmax', INF_), ('transmission_weight', None), ('recovery_weight', None), ('return_full_data', False), ('sim_kwargs', None)],
    'fast_nonMarkov_SIR': [('G', None), ('trans_time_fxn', None), ('rec_time_fxn', None), ('trans_and_rec_time_fxn', None), ('trans_time_args', ()), ('rec_time_args', ()), ('trans_and_rec_time_args', ()), ('initial_infecteds', None), ('initial_recovereds', None), ('rho', None), ('tmin', 0), ('tmax', INF_), ('return_full_data', False), ('sim_kwargs', None)],
    'Gillespie_SIR': [('G', None), ('tau', None), ('gamma', None), ('initial_infecteds', None), ('initial_recovereds', None), ('rho', None), ('tmin', 0), ('tmax', INF_), ('recovery_weight', None), ('transmission_weight', None), ('return_full_data', False), ('sim_kwargs', None)],
    'fast_SIS': [('G', None), ('tau', None), ('gamma', None), ('initial_infecteds', None), ('rho', None), ('tmin', 0), ('tmax', 100), ('transmission_weight', None), ('recovery_weight', None), ('return_full_data', False), ('sim_kwargs', None)],
    'fast_nonMarkov_SIS': [('G', None), ('trans_time_fxn', None), ('rec_time_fxn', None), ('trans_and_rec_time_fxn', None), ('trans_time_args', ()), ('rec_time_args', ()), ('trans_and_rec_time_args', ()), ('initial_infecteds', None), ('rho', None), ('tmin', 0), ('tmax', 100), ('return_full_data', False), ('sim_kwargs', None)],
    'Gillespie_SIS': [('G', None), ('tau', None), ('gamma', None), ('initial_infecteds', None), ('rho', None), ('tmin', 0), ('tmax', 100), ('recovery_weight', None), ('transmission_weight', None), ('return_full_data', False), ('sim_kwargs', None)],
    'Gillespie_simple_contagion': [('G', None), ('spontaneous_transition_graph', None), ('nbr_induced_transition_graph', None), ('IC', None), ('return_statuses', None), ('tmin', 0), ('tmax', 100), ('spont_kwargs', None), ('nbr_kwargs', None), ('return_full_data', False), ('sim_kwargs', None)],
    'Gillespie_complex_contagion': [('G', None), ('rate_function', None), ('transition_choice', None), ('get_influence_set', None), ('IC', None), ('return_statuses', None), ('tmin', 0), ('tmax', 100), ('parameters', None), ('return_full_data', False), ('sim_kwargs', None)],
    'basic_discrete_SIR': [('G', None), ('p', None), ('initial_infecteds', None), ('initial_recovereds', None), ('rho', None), ('tmin', 0), ('tmax', INF_), ('return_full_data', False), ('sim_kwargs', None)],
    'basic_discrete_SIS': [('G', None), ('p', None), ('initial_infecteds', None), ('rho', None), ('tmin', 0), ('tmax', 100), ('return_full_data', False), ('sim_kwargs', None)],
    'percolation_based_discrete_SIR': [('G', None), ('p', None), ('initial_infecteds', None), ('initial_recovereds', None), ('rho', None), ('tmin', 0), ('tmax', INF_), ('return_full_data', False), ('sim_kwargs', None)],
}


def positional(sim, args, kw):
    """the same call with every given argument passed by position, in the documented order (defaults fill the gaps)"""
    sig = DOC_SIG[sim]
    names = [n for n, _ in sig]
    if any(k not in names for k in kw):
        return args, kw                 # an option outside the documented list: leave the call alone
    last = max([len(args) - 1] + [names.index(k) for k in kw])
    out = list(args)
    for i in range(len(args), last + 1):
        n, d = sig[i]
        out.append(kw[n] if n in kw else d)
    return out, {}


def build(case, full, budget=None, G=None, extra=None):
    f, args, kw = _build(case, full, budget=budget, G=G, extra=extra)
    if case.get('rfd_form') and full and 'return_full_data' in kw:
        # the flag as it comes out of a numpy comparison, or as 1: truthy, but not the singleton True
        kw['return_full_data'] = np.bool_(True) if case['rfd_form'] == 'numpy' else 1
    if case.get('positional') and case['sim'] in DOC_SIG:
        args, kw = positional(case['sim'], args, kw)
    return f, args, kw


def _build(case, full, budget=None, G=None, extra=None):
    """-> (function, args list, kwargs dict) for the simulator described by `case` (fresh argument objects)."""
    import EoN
    from .props import c15 as _c15
    sim = case['sim']
    if G is None:
        G = oracles.build_graph(case['gc'])
        if case.get('as_view'):
            # the contact network is a read-only subgraph view of a larger population (G.subgraph(nodes)): same nodes, edges and attributes
            big = G.copy()
            outside = [('outside', k) for k in range(2)]
            big.add_nodes_from(outside)
            for k, u in enumerate(list(G.nodes())[:3]):
                big.add_edge(outside[k % 2], u, **{lab: 1.0 for lab in (case['gc'].get('ew') or {})})
            for x in outside:
                for lab in (case['gc'].get('nw') or {}):
                    big.nodes[x][lab] = 1.0
            G = big.subgraph(list(G.nodes()))
    I0 = [oracles.tolabel(u) for u in case['I0']]
    R0 = [oracles.tolabel(u) for u in case.get('R0') or []]
    tmin, tmax = case['tmin'], tmax_of(case)
    kw = dict(tmin=tmin, tmax=tmax, return_full_data=full)
    if case.get('omit_defaults'):
        # leave documented defaults to the callee: tmin=0 everywhere, tmax=inf for the SIR simulators
        if tmin == 0:
            del kw['tmin']
        if case['tmax'] == 'inf' and KIND[sim] == 'SIR':
            del kw['tmax']
    if case.get('sim_kwargs'):
        # pass-through options for the returned Simulation_Investigation (caller-owned dict, must come back untouched)
        kw['sim_kwargs'] = {'tex': False, 'pos': {oracles.tolabel(u): (i, -i) for i, u in enumerate(case['gc']['nodes'])}}
    if extra:
        kw.update(extra)
    if KIND[sim] != 'generic' and case.get('use_rho') is not None:
        kw['rho'] = case['use_rho']           # random initial infection instead of an explicit set
    elif KIND[sim] != 'generic':
        kw['initial_infecteds'] = list(I0)
        if R0 and sim in HAS_R0:
            kw['initial_recovereds'] = list(R0)
            if case.get('R0_one_shot') and sim in ONE_SHOT_R0:
                kw['initial_recovereds'] = iter(list(R0)) if case['R0_one_shot'] == 'iter' else (u for u in list(R0))
    f = getattr(EoN, sim)
    if sim in WEIGHTED:
        if case.get('ew') is not None:
            kw['transmission_weight'] = case['ew']
        if case.get('nw') is not None:
            kw['recovery_weight'] = case['nw']
        tau_, gamma_ = case['tau'], case['gamma']
        if case.get('np_rates'):
            tau_, gamma_ = np.float64(tau_), np.float64(gamma_)       # rates handed over as numpy scalars (e.g. read from an array)
        return f, [G, tau_, gamma_], kw
    if sim in ('fast_nonMarkov_SIR', 'fast_nonMarkov_SIS'):
        trans, rec = make_rules(case, budget)
        if case['rule'].get('joint'):
            if sim == 'fast_nonMarkov_SIR':
                def joint(node, sus_nbrs):
                    return {v: trans(node, v) for v in sus_nbrs}, rec(node)
            else:
                def joint(node, nbrs):
                    d = rec(node)
                    return {v: trans(node, v, d) for v in nbrs}, d
            kw['trans_and_rec_time_fxn'] = joint
            return f, [G], kw
        kw['trans_time_fxn'] = trans
        kw['rec_time_fxn'] = rec
        return f, [G], kw
    if sim in ('basic_discrete_SIR', 'basic_discrete_SIS', 'percolation_based_discrete_SIR'):
        return f, [G, case['p']], kw
    if sim == 'discrete_SIR':
        kw['args'] = (case['p'],)
        if case.get('rec_steps'):
            # user recovery rule: node u stays infectious for rec_steps[u] whole steps (asked once per step while infected)
            need = dict(zip([oracles.tolabel(u) for u in case['gc']['nodes']], case['rec_steps']))
            asked = {}

            def test_recovery(u):
                if budget:
                    budget.tick()
                asked[u] = asked.get(u, 0) + 1
                return asked[u] >= need[u]
            kw['test_recovery'] = test_recovery
        return f, [G], kw
    if sim == 'Gillespie_simple_contagion':
        H, J = build_spec_graphs(case, G)
        IC = _with_extra(case, initial_status(case))
        return f, [G, H, J, IC, statuses_of(case)], kw
    if sim == 'Gillespie_complex_contagion':
        statuses, rules, nxt = CMODELS[case['cmodel']][:3]
        may_fail = CMODELS[case['cmodel']][3] if len(CMODELS[case['cmodel']]) > 3 else {}
        nodes, adj = oracles.adjacency(case['gc'])
        hops = max([1] + [v[4] for v in rules.values() if v[0] != 'const'])

        def rate_function(G_, node, status, parameters):
            return _c15.rate_of(rules, adj, node, status)

        def transition_choice(G_, node, status, parameters):
            s_ = status[node]
            if s_ in may_fail:
                X, theta = may_fail[s_]
                if sum(1 for v in adj[node] if status[v] == X) < theta:
                    return s_           # failed attempt: an event that changes nothing
            return nxt[s_]

        def get_influence_set(G_, node, status, parameters):
            return _c15.ball(adj, node, hops)
        IC = _with_extra(case, initial_status(case))
        kw['parameters'] = ()
        return f, [G, rate_function, transition_choice, get_influence_set, IC, statuses_of(case)], kw
    raise ValueError(sim)


def call(case, full, budget=None, G=None, seed=True, extra=None):
    """Run the simulator described by `case`.  Returns the raw return value."""
    f, args, kw = build(case, full, budget=budget, G=G, extra=extra)
    if seed:
        random.seed(case['seed'])
        np.random.seed(case['seed'] % (2 ** 32))
    return f(*args, **kw)


def as_series(case, out, full):
    """-> (times list[float], {status: list[int]}) from either return mode"""
    sts = statuses_of(case)
    if full:
        t, D = out.summary()
        return [float(x) for x in t], {s: [int(x) for x in D[s]] for s in sts if s in D}
    t = [float(x) for x in out[0]]
    return t, {s: [x for x in col] for s, col in zip(sts, out[1:])}


# ---------------------------------------------------------------------------
# strategy
# ---------------------------------------------------------------------------

GRID = [0.5, 1.0, 1.5, 2.0, 3.0]


@st.composite
def sim_case(draw, sims=SIMS, nmax=25, labels=('int', 'perm', 'str', 'tuple'), force_R0=None, table_bias=False):
    sim = draw(st.sampled_from(list(sims)))
    kind = KIND[sim]
    directed = sim == 'Gillespie_simple_contagion' and draw(st.booleans())
    small = draw(st.integers(0, 3)) == 0
    gc = draw(gen.graph_case(1, 4 if small else nmax, labels=labels, weighted=True, directed=directed,
                             selfloops=(sim != 'Gillespie_complex_contagion')))     # a node does not act on itself: self-loops are ignored
    nodes = gc['nodes']
    n = len(nodes)
    allow_R = sim in HAS_R0 if force_R0 is None else (force_R0 and sim in HAS_R0)
    I0, R0 = draw(gen.initial_sets(nodes, allow_R=allow_R))
    tmin = draw(st.sampled_from([0, 0, 0, -1.5, 2, 2.5, -1.5, 2, 2.5] + ([1.6e9] if sim not in DISCRETE else [])))      # 1.6e9: epoch seconds as the clock
    disc = sim in DISCRETE
    if kind == 'SIS' or sim == 'Gillespie_complex_contagion' or (sim == 'Gillespie_simple_contagion'):
        tmax = tmin + draw(st.sampled_from([1, 2, 2.5, 4, 4, 2 ** -20] if not disc else [1, 2, 3, 2.5]))
    else:
        tmax = draw(st.sampled_from(['inf', 'inf', tmin + 1, tmin + 2, tmin + 2.5, tmin + 4] + ([] if disc else [tmin + 2 ** -20])))
    case = {'sim': sim, 'gc': gc, 'tau': draw(gen.rates), 'gamma': draw(gen.rates),
            'p': draw(st.one_of(st.sampled_from([0.0, 1.0, 0.5]), st.floats(0.01, 0.99))),
            'ew': None, 'nw': None, 'I0': I0, 'R0': R0, 'tmin': tmin, 'tmax': tmax,
            'seed': draw(st.integers(0, 2 ** 31 - 1))}
    if sim in ONE_SHOT_R0 and R0 and draw(st.integers(0, 2)) == 0:
        case['R0_one_shot'] = draw(st.sampled_from(['iter', 'generator']))
    if sim in WEIGHTED:
        if draw(st.booleans()):
            case['ew'] = list(gc['ew'])[0]
        if draw(st.booleans()):
            case['nw'] = list(gc['nw'])[0]
    if draw(st.integers(0, 4)) == 0:
        case['sim_kwargs'] = True
    if draw(st.integers(0, 3)) == 0:
        case['omit_defaults'] = True
    if draw(st.integers(0, 7)) == 0:
        case['as_view'] = True
    if sim == 'Gillespie_simple_contagion' and draw(st.integers(0, 3)) == 0:
        case['zero_rate_edges'] = True
    if kind == 'generic' and n >= 3 and draw(st.integers(0, 4)) == 0:
        case['bystanders'] = sorted(set(draw(st.integers(0, n - 1)) for _ in range(draw(st.integers(1, 2)))))
    if draw(st.integers(0, 4)) == 0:
        case['positional'] = True
    if draw(st.integers(0, 5)) == 0:
        case['rfd_form'] = draw(st.sampled_from(['numpy', 'one']))
    if sim in WEIGHTED and draw(st.integers(0, 5)) == 0:
        case['np_rates'] = True
    if sim == 'discrete_SIR' and draw(st.integers(0, 2)) == 0:
        case['rec_steps'] = [draw(st.integers(1, 3)) for _ in nodes]
    if sim in ('fast_nonMarkov_SIR', 'fast_nonMarkov_SIS'):
        nodes_l, adj = oracles.adjacency(gc)
        pairs = [(u, v) for u in nodes_l for v in adj[u]]
        if draw(st.booleans()) or table_bias:
            if sim == 'fast_nonMarkov_SIR':
                case['rule'] = {'kind': 'table',
                                'dur': [draw(st.sampled_from(GRID + [0, 'inf'])) for _ in nodes_l],
                                'delay': [draw(st.sampled_from(GRID + [0, 'inf', 0.5, 1.0])) for _ in pairs]}
            else:
                case['rule'] = {'kind': 'table',
                                'dur': [draw(st.sampled_from([0.5, 1.0, 1.5, 2.0])) for _ in nodes_l],
                                'delay': [sorted(set(draw(st.lists(st.sampled_from([0.25, 0.5, 0.75, 1.0, 1.25, 1.5, 1.75]), max_size=3))))
                                          for _ in pairs]}
        else:
            case['rule'] = {'kind': 'exp'}
        case['rule']['joint'] = draw(st.booleans())
    if sim == 'Gillespie_simple_contagion':
        case['spec'] = draw(st.integers(0, len(SPECS) - 1))
        sts = SPECS[case['spec']][0]
        case['IC'] = [draw(st.sampled_from(sts + ['I'] if 'I' in sts else sts)) for _ in nodes]
        if draw(st.integers(0, 3)) == 0:
            case['ic_extra'] = [draw(st.sampled_from(sts)) for _ in range(draw(st.integers(1, 3)))]
    if sim == 'Gillespie_complex_contagion':
        case['cmodel'] = draw(st.integers(0, len(CMODELS) - 1))
        sts = CMODELS[case['cmodel']][0]
        case['IC'] = [draw(st.sampled_from(sts)) for _ in nodes]
        if draw(st.integers(0, 3)) == 0:
            case['ic_extra'] = [draw(st.sampled_from(sts)) for _ in range(draw(st.integers(1, 3)))]
    return case


@st.composite
def large_case(draw, sim):
    """70-150 nodes with a hub of degree >= 69 and (when weighted) weights spread over six orders of magnitude or one
    candidate 1500 times heavier than the rest: code paths that only switch on above a size or rejection-count threshold.
    The graph is a pure function of a few drawn integers (too big to draw edge by edge)."""
    case = draw(sim_case(sims=[sim], nmax=4))
    n = draw(st.sampled_from([70, 100, 150, 400]))
    shape = draw(st.sampled_from(['star', 'double-star', 'complete', 'hub-ring', 'sparse+hub', 'path']))
    R = random.Random(draw(st.integers(0, 10 ** 6)))
    if shape == 'complete':
        n = 70
    idx = list(range(n))
    if shape == 'star':
        es = [(0, i) for i in idx[1:]]
    elif shape == 'double-star':
        es = [(0, 1)] + [(i % 2, i) for i in idx[2:]]
    elif shape == 'complete':
        es = [(i, j) for i in idx for j in idx[i + 1:]]
    elif shape == 'path':           # an outbreak started at one end can last more than 100 generations
        es = [(i, i + 1) for i in idx[:-1]]
    elif shape == 'hub-ring':
        es = [(0, i) for i in idx[1:]] + [(i, i + 1) for i in idx[1:-1]]
    else:
        es = [(0, i) for i in idx[1:]] + [(i, j) for i in idx[1:] for j in idx[i + 1:] if R.random() < 3.0 / n]
    R.shuffle(es)
    lab = idx if draw(st.booleans()) else ['n%03d' % i for i in idx]
    order = idx[:]
    R.shuffle(order)
    gc = {'nodes': [lab[i] for i in order], 'edges': [[lab[a], lab[b]] if R.random() < 0.5 else [lab[b], lab[a]] for a, b in es],
          'ew': None, 'nw': None, 'directed': False}
    wkind = draw(st.sampled_from(['one-heavy', 'few-heavy', 'few-heavy', 'log-uniform', 'plain']))

    def weights(k):
        if wkind == 'one-heavy':
            ws = [1.0] * k
            ws[R.randrange(k)] = 1500.0
            return ws
        if wkind == 'few-heavy':         # mean/max of order 1e-2 for the whole run: long rejection runs in every selection
            ws = [R.uniform(0.5, 2.0) for _ in range(k)]
            for j in R.sample(range(k), max(1, k // 50)):
                ws[j] = 1.0e4
            return ws
        if wkind == 'log-uniform':
            return [10 ** R.uniform(-3, 3) for _ in range(k)]
        return [R.choice([0.5, 1.0, 2.0]) for _ in range(k)]
    gc['ew'] = {'w': weights(len(es))}
    gc['nw'] = {'rw': weights(n)}
    case['gc'] = gc
    case['ew'] = 'w' if sim in WEIGHTED and draw(st.booleans()) else None
    case['nw'] = 'rw' if sim in WEIGHTED and draw(st.booleans()) else None
    frac = draw(st.sampled_from([0.02, 0.1, 0.9]))
    I0 = [u for u in gc['nodes'] if R.random() < frac] or [gc['nodes'][0]]
    if draw(st.booleans()) and lab[0] not in I0:
        I0.append(lab[0])                       # the hub starts infected
    case['I0'], case['R0'] = I0, []
    if shape == 'path' and draw(st.booleans()):
        case['I0'] = [lab[0]]
        case['p'] = 1.0
    case['tau'] = draw(st.sampled_from([0.5, 2.0]))
    case['gamma'] = draw(st.sampled_from([0.5, 1.0]))
    if KIND[sim] != 'SIR' or case['tmax'] != 'inf':
        case['tmax'] = case['tmin'] + (2 if sim in DISCRETE else 1)
    if 'rule' in case:
        case['rule'] = {'kind': 'exp', 'joint': case['rule'].get('joint', False)}
    if 'IC' in case:
        sts = statuses_of(case)
        case['IC'] = [R.choice(sts) for _ in gc['nodes']]
        case.pop('ic_extra', None)
    case.pop('bystanders', None)
    if 'rec_steps' in case:
        case['rec_steps'] = [R.randint(1, 3) for _ in gc['nodes']]
    case['large'] = [shape, wkind]
    return case
