#!/venv/bin/python
"""Regenerates /verif/MANIFEST.json from the table below (kept in one place so it is always valid)."""
import json, os
here = os.path.dirname(os.path.dirname(os.path.abspath(__file__)))
props = [json.loads(l) for l in open(os.path.join(here, 'properties.jsonl'))]
from manifest_table import CHECKS, ENGINES, NOTES
checks, na = [], []
for p in props:
    pid = p['id']
    c = CHECKS.get(pid)
    if c is None or c.get('not_applicable'):
        na.append({'property_id': pid, 'reason': (c or {}).get('not_applicable', 'check not built yet in this session; will be claimed once its check exists')})
        continue
    checks.append({
        'property_id': pid,
        'quick_cmd': './check %s --tier quick' % pid,
        'thorough_cmd': './check %s --tier thorough' % pid,
        'evidence_file': 'evidence/%s.json' % pid,
        'replay_cmd_template': './check %s --replay {path}' % pid,
        'engine': c['engine'],
        'level_claimed': {'category': c.get('category', 'exploration'), 'text': c['text'], 'design_ref': c['design_ref']},
        'level_note': c['note'],
        'technique': c['technique'],
    })
m = {
    'version': 1,
    'setup_cmd': '/venv/bin/python -c "import hypothesis, numpy, scipy, networkx" || /venv/bin/pip install --no-index --find-links /opt/veriftools/wheels hypothesis',
    'hooks': {'guard': 'EON_VERIF', 'enable': 'no source hooks: checks import /repo working tree (pure Python) and substitute the module-level names EoN.simulation.random / EoN.simulation.np from the harness',
              'baseline_off_cmd': 'cd /repo && /venv/bin/python -m pytest -ra -q -p no:cacheprovider --timeout=900 --continue-on-collection-errors',
              'source_commits': [], 'add_only': True},
    'engines': ENGINES,
    'checks': checks,
    'notes': NOTES,
    'not_applicable': na,
}
json.dump(m, open(os.path.join(here, 'MANIFEST.json'), 'w'), indent=1)
print('checks', len(checks), 'not_applicable', len(na))
