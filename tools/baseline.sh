#!/bin/bash
# Runs the repository's pinned suite on /repo's working tree and compares with BASELINE.json stable_pass.
cd /repo && /venv/bin/python -m pytest -ra -q -p no:cacheprovider --timeout=900 --continue-on-collection-errors --junitxml=/tmp/junit_baseline.xml > /tmp/pytest_baseline.log 2>&1
/venv/bin/python - <<'PY'
import json, xml.etree.ElementTree as ET
b=json.load(open('/root/.vp/BASELINE.json'))
t=ET.parse('/tmp/junit_baseline.xml').getroot()
res={}
for tc in t.iter('testcase'):
    res[tc.get('classname')+'::'+tc.get('name')] = not any(ch.tag in ('failure','error') for ch in tc)
print('BASELINE stable_pass failing now:', [n for n in b['stable_pass'] if not res.get(n)])
print('BASELINE newly passing:', [n for n in b['always_fail'] if res.get(n)])
PY
