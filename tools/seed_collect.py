#!/venv/bin/python
"""Copy confirmed seeded mutants into /verif/seeded/<PROP>-<n>/ and (re)write seeded/README.md.

  tools/seed_collect.py RESULTS.jsonl [SUITE.jsonl ...]

RESULTS lines come from tools/seedeval.py (checks run against the patched tree); SUITE lines from `seedeval.py --suite`.
A mutant is kept only if: patch applies, demonstration passes on the clean tree and fails with the patch, and the pinned
suite loses no stable test.
"""
import os, sys, json, shutil, glob
here = os.path.dirname(os.path.dirname(os.path.abspath(__file__)))
res, suite = {}, {}
for f in sys.argv[1:]:
    for l in open(f):
        try:
            r = json.loads(l)
        except Exception:
            continue
        if 'suite_broken' in r:
            suite[r['dir']] = r
        if r.get('checks'):
            res.setdefault(r['dir'], {}).update(r['checks'])
            res[r['dir']]['_r'] = r
seeded = os.path.join(here, 'seeded')
os.makedirs(seeded, exist_ok=True)
NOTES = json.load(open(os.path.join(seeded, 'NOTES.json'))) if os.path.exists(os.path.join(seeded, 'NOTES.json')) else {}
rows = []
for d in sorted(set(res) | set(suite)):
    r = (res.get(d) or {}).get('_r') or suite.get(d)
    s = suite.get(d)
    pid = r['property']
    name = '%s-%s' % (pid, os.path.basename(d).replace('MUTANT', 'm'))
    ok = r.get('apply') == 0 and r.get('demo_clean') == 0 and r.get('demo_mutant') not in (0, None, 'timeout')
    if s is not None:
        ok = ok and not s.get('suite_broken')
    if not ok:
        print('DISCARD', name, {k: r.get(k) for k in ('apply', 'demo_clean', 'demo_mutant')}, (s or {}).get('suite_broken'))
        continue
    dst = os.path.join(seeded, name)
    os.makedirs(dst, exist_ok=True)
    for fn in ('patch.diff', 'demo.py'):
        shutil.copy(os.path.join(d, fn), os.path.join(dst, fn))
    meta = json.load(open(os.path.join(d, 'meta.json')))
    checks = {k: {'exit': v['exit'], 'signatures': [x.split('signature=')[1] for x in v.get('sigs', [])]}
              for k, v in (res.get(d) or {}).items() if k != '_r'}
    meta.update({'breaks_property': pid, 'author': 'independent sub-agent given only the property text and a scratch worktree',
                 'confirmed_by_me': {'patch_applies_to_repo_HEAD': True, 'demo_on_clean_tree_exit': r.get('demo_clean'),
                                     'demo_with_patch_exit': r.get('demo_mutant'),
                                     'pinned_suite_stable_tests_broken': (s or {}).get('suite_broken', 'not run by me (agent ran it)'),
                                     'how': 'tools/seedeval.py in a scratch worktree of /repo under /tmp/sv (removed afterwards)'},
                 'detected_by': checks})
    if name in NOTES:
        meta['note'] = NOTES[name]
    json.dump(meta, open(os.path.join(dst, 'meta.json'), 'w'), indent=1)
    det = [k for k, v in checks.items() if v['exit'] == 1]
    rows.append((name, pid, meta.get('summary', '')[:150].replace('|', '/'), meta.get('needs', '')[:150].replace('|', '/'),
                 (', '.join('%s (%s)' % (k, '; '.join(checks[k]['signatures'][:2])[:110]) for k in det) or 'not reported by the quick tier at VERIF_SEED=1') +
                 ((' - ' + NOTES[name].replace('|', '/')) if name in NOTES else '')))
with open(os.path.join(seeded, 'README.md'), 'w') as fh:
    fh.write('# Independently seeded breaking changes\n\nEach directory holds `patch.diff` (apply with `git -C /repo apply`), `demo.py` '
             '(passes on the unchanged tree, fails with the patch) and `meta.json` (what it breaks, what it needs to manifest, what was run, '
             'which check reports it with which signatures).  None of these patches is ever committed to /repo.\n\n'
             '| change | property | what was changed | needs | reported by (quick tier) |\n|---|---|---|---|---|\n')
    for row in rows:
        fh.write('| %s | %s | %s | %s | %s |\n' % row)
    nrep = sum(1 for r in rows if not r[4].startswith('not reported'))
    fh.write('\n%d changes (two per property per round, five rounds: m1-m2, m3-m4, m5-m6, m7-m8, m9-m10); %d are reported by the owning '
             'property\'s quick check at VERIF_SEED=1 on the final machinery; the other %d are explained in their row (NOTES.json): '
             'seed dependent, thorough tier only, or deliberately outside the asserted domain.  Detection columns were produced by '
             '`tools/seedeval.py` (scratch worktree of /repo HEAD + patch, `EON_REPO` pointing at it); how the checks were widened after '
             'each round is in DESIGN.md sections 8.5-8.8.\n' % (len(rows), nrep, len(rows) - nrep))
print('kept', len(rows))
