ENGINES = [
 {'name': 'forkrng', 'path': 'eonverif/forkrng.py', 'serves_properties': ['C01', 'C02', 'C03', 'C12', 'C15', 'C16'],
  'kind_free_text': 'forking random source: the simulator becomes a deterministic function of a decision script; DFS over scripts gives the exact probability law of the implementation'},
 {'name': 'runner', 'path': 'eonverif/runner.py', 'serves_properties': ['C16'],
  'kind_free_text': 'Hypothesis driver (seeded, no database), known-findings filter, shrinking, replay files, evidence'},
]
NOTES = 'All checks: ./check <ID> [--tier quick|thorough] [--replay FILE]; exit 0 held / 1 violation / 2 harness problem or inconclusive. See DESIGN.md.'
CHECKS = {
 'C09': {
  'engine': 'simrun (Hypothesis, seeded real RNG)',
  'technique': 'Hypothesis over the 11 single-neighbour simulators with full data; two-directional validity predicate of the transmission list against node histories and the network (causality + completeness + forest)',
  'design_ref': 'DESIGN.md section 3 C09',
  'text': 'Every recorded (t,u,v) must follow an edge (in direction), from a node whose history says it has the infectious/inducing status at t to a node that had the from-status and changes at t (t+1 in discrete time); conversely every neighbour-induced change after tmin needs exactly one entry; None sources only for initially infected nodes; SIR transmission trees are forests rooted in I0.',
  'note': 'Induced moves of the generic simulator are read from the specification; discrete-time horizons whole or infinite.',
 },
 'C10': {
  'engine': 'simrun (Hypothesis, seeded real RNG)',
  'technique': 'differential: same-seed arrays vs full-data summary; model-based: node_status/get_statuses/summary(nodelist) vs naive scan over the node histories at generated query times',
  'design_ref': 'DESIGN.md section 3 C10',
  'text': 'Each generated case runs twice with identical seeds; summary()/t()/S()/I()/R() must equal the arrays (continuous time) or every array row must equal the counts of get_statuses at its time (discrete time, deterministic rule); histories start at tmin with the initial status, are ordered and legal; status queries at generated times (change times, just after, beyond the end) and subset summaries must equal a naive last-change scan.',
  'note': 'Relies on both modes consuming the same draws (C18). Scripted ties collapse in the summary by design and are compared after collapsing.',
 },
 'C05': {
  'engine': 'simrun (Hypothesis, seeded real RNG)',
  'technique': 'Hypothesis over simulators x initial-set passing forms (containers, single node, positional) with metamorphic equality across forms and a direct oracle for row 0 / statuses at tmin / rho counts / EoNError',
  'design_ref': 'DESIGN.md section 3 C05',
  'text': 'For every SIR/SIS simulator and wrapper, generated disjoint I0/R0 are passed as list, tuple, set, frozenset, dict keys, range, numpy array or single node, by keyword or positionally; row 0, get_statuses/node_status at tmin and the histories of initially recovered nodes must equal the request, order-preserving forms must give identical output under the same seed, rho must infect exactly int(round(N*rho)) nodes, rho together with initial_infecteds must raise EoNError (incl. rho=0.0 and node 0), and basic_discrete_SIR must equal discrete_SIR with the default rule.',
  'note': 'Single node as initial_recovereds only where documented. Table rules with events exactly at tmin are left to C10/C11.',
 },
 'C04': {
  'engine': 'simrun (Hypothesis, seeded real RNG) + forkrng for exact horizon hits',
  'technique': 'Hypothesis-generated simulator calls (12 simulators, both return modes) checked against a two-directional validity predicate; table-driven and forked-clock runs that put events exactly on tmax',
  'design_ref': 'DESIGN.md section 3 C04',
  'text': 'Generated (simulator, graph, rates, weights, initial sets, tmin/tmax, seed) cases; the returned series must have equal lengths, start at tmin with the initial counts, be time-ordered, stay below tmax, hold non-negative integer counts summing to N, change by exactly one legal move per row in continuous time, be monotone for SIR and end without infected nodes for an unbounded horizon. Events exactly at tmax (measure zero under a real RNG) are produced by dyadic delay tables and by the forking clock.',
  'note': 'Validity predicate only (laws are C01-C03, C12, C15). Legal moves of the generic simulators are read from the specification passed to them. Domain tmax>tmin.',
 },
 'C12': {
  'engine': 'forkrng+oracles',
  'technique': 'Hypothesis table-driven differential vs independent generation loop; exhaustive whole-run law (forking RNG) vs Reed-Frost / discrete-SIS path probabilities on all graphs n<=3',
  'design_ref': 'DESIGN.md section 3 C12',
  'text': 'discrete_SIR with generated deterministic transmission tables and recovery rules is compared (arrays, histories, transmissions) with an independent generation-by-generation reference on graphs n<=8; for basic_discrete_SIR, percolation_based_discrete_SIR and basic_discrete_SIS every Bernoulli outcome is enumerated on every labelled graph n<=3 (thorough: + generated n=4) and the exact probability of every complete trajectory (array and full-data mode) equals the Reed-Frost / discrete SIS chain to 1e-12; percolate_network edge-subset law is exact.',
  'note': 'Trusts the forking random source. Domain: tmax-tmin whole or infinite; table rules pure.',
 },
 'C03': {
  'engine': 'forkrng+oracles',
  'technique': 'Hypothesis-generated model specifications and walks; exact step law (forking RNG incl. inverse-CDF scan and rejection sampling) vs specified CTMC rate shares',
  'design_ref': 'DESIGN.md section 3 C03',
  'text': 'Generated specifications (2-4 statuses, spontaneous and induced transitions with rate, weight_label or rate_function+kwargs) on directed and undirected weighted contact networks n<=5: at every step of a generated walk (<=10 events) and on complete history trees of the canonical SIS/SIR/SIRS/SEIR/competing/cooperating/vaccination models, the exact law over (node, new status, inducing neighbour), the clock rate and the array-mode counts equal the specified chain; an event outside the enabled set or a stale candidate shows up as a wrong share or exception.',
  'note': 'Trusts the forking random source. Domain: sortable string statuses, no self-loops; with full data all statuses are listed in return_statuses.',
 },
 'C15': {
  'engine': 'forkrng+oracles',
  'technique': 'Hypothesis-generated rate/chooser/influence callbacks from a grammar + walks; exact next-node law (forking RNG) vs harness-evaluated rates; exhaustive history trees for threshold/SIR/two-hop models',
  'design_ref': 'DESIGN.md section 3 C15',
  'text': 'User callbacks are generated from a grammar (const/threshold/linear rules over 1- and 2-hop balls); the harness evaluates the same rules on its own ground-truth statuses and at every step compares the exact selection law, the clock rate, the new status and the termination condition (all rates zero or horizon, incl. tmax=inf) with them.',
  'note': 'Trusts the forking random source; influence set covers the dependence radius (property precondition); callbacks pure.',
 },
 'C01': {
  'engine': 'forkrng+oracles+mc',
  'technique': 'exact step-law extraction (forking RNG, exhaustive history trees n<=3/4 + Hypothesis walks) vs CTMC rate shares; Monte-Carlo chi-square vs master equation for fast_SIR',
  'design_ref': 'DESIGN.md section 3 C01, sections 2.1-2.3',
  'text': 'Gillespie_SIR: for every labelled graph up to 3 (quick) / 4 (thorough) nodes, every initial S/I/R assignment, weight mode and rate pair, the complete history tree is walked and at every reachable history the exact probability of every next event, the rate of the exponential clock and the reported event time are compared with the chain (tol 1e-9); Hypothesis walks extend this to generated graphs n<=6 with labels, weights, R0, tmin/tmax. fast_SIR (and Gillespie_SIR again): per-node state vector at two times and at the end vs the 3^N master equation by two-stage chi-square. Exhaustive up to the node bound for Gillespie_SIR; statistical for fast_SIR.',
  'note': 'Trusts: forking random source; scipy expm / linear solve for the master equation; randomness flows through EoN.simulation.random/np.random (C18). fast_SIR decided statistically: rate distortions below about 5% (quick) / 1-2% (thorough) can escape; false-alarm probability <=1e-9 per configuration.',
 },
 'C02': {
  'engine': 'forkrng+oracles+mc',
  'technique': 'exact step-law extraction (forking RNG, history trees + Hypothesis walks with reinfection) vs CTMC rate shares; Monte-Carlo chi-square vs 2^N master equation for fast_SIS',
  'design_ref': 'DESIGN.md section 3 C02',
  'text': 'Gillespie_SIS: complete history trees up to the horizon for every labelled graph n<=3 and generated walks of up to 14 events (reinfections) on graphs n<=6: exact next-event law, clock rate and time at every history. fast_SIS and Gillespie_SIS: full node-state vector at two times T<tmax vs the master equation (two-stage chi-square), on graphs where queued transmissions are invalidated with high probability.',
  'note': 'As C01. fast_SIS is decided statistically only.',
 },
 'C16': {
  'engine': 'forkrng',
  'technique': 'Hypothesis stateful (rule-based machine) vs dict model; exact selection law by enumerating the forks of the rejection sampler',
  'design_ref': 'DESIGN.md section 3 C16, section 2.1',
  'text': 'Generated operation histories (insert/replace/increment/remove/random removal) on the candidate set used by every weighted Gillespie simulator; after every step the exact selection probabilities implied by the accept tests are compared with weight/sum, total_weight with the sum, membership with a dict model. Exploration, not proof: histories are sampled (hundreds quick, thousands thorough, up to 60 steps).',
  'note': 'Trusts the forking random source (probability of a path = product of the comparison probabilities the implementation made). Domain: non-negative increments, selection only when the total weight is positive.',
 },
}
