ENGINES = [
 {'name': 'forkrng', 'path': 'eonverif/forkrng.py', 'serves_properties': ['C16'],
  'kind_free_text': 'forking random source: the simulator becomes a deterministic function of a decision script; DFS over scripts gives the exact probability law of the implementation'},
 {'name': 'runner', 'path': 'eonverif/runner.py', 'serves_properties': ['C16'],
  'kind_free_text': 'Hypothesis driver (seeded, no database), known-findings filter, shrinking, replay files, evidence'},
]
NOTES = 'All checks: ./check <ID> [--tier quick|thorough] [--replay FILE]; exit 0 held / 1 violation / 2 harness problem or inconclusive. See DESIGN.md.'
CHECKS = {
 'C16': {
  'engine': 'forkrng',
  'technique': 'Hypothesis stateful (rule-based machine) vs dict model; exact selection law by enumerating the forks of the rejection sampler',
  'design_ref': 'DESIGN.md section 3 C16, section 2.1',
  'text': 'Generated operation histories (insert/replace/increment/remove/random removal) on the candidate set used by every weighted Gillespie simulator; after every step the exact selection probabilities implied by the accept tests are compared with weight/sum, total_weight with the sum, membership with a dict model. Exploration, not proof: histories are sampled (hundreds quick, thousands thorough, up to 60 steps).',
  'note': 'Trusts the forking random source (probability of a path = product of the comparison probabilities the implementation made). Domain: non-negative increments, selection only when the total weight is positive.',
 },
}
