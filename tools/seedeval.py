#!/venv/bin/python
"""Evaluate independently authored breaking changes ("seeded mutants").

  tools/seedeval.py DIR [--checks C01,C05] [--tier quick] [--suite]

DIR holds patch.diff, demo.py, meta.json.  A scratch worktree of /repo is created under /tmp/sv, the demonstration is run
on the clean tree (must pass) and with the patch applied (must fail), then the named checks (default: the property in
meta.json) are run against the patched tree (EON_REPO) with outputs in a scratch dir.  --suite also runs the pinned test
suite on the patched tree and compares with BASELINE.json.  The worktree is removed afterwards.  Prints one JSON line.
"""
import os, sys, json, subprocess, shutil, time, argparse
ap = argparse.ArgumentParser()
ap.add_argument('dir'); ap.add_argument('--checks'); ap.add_argument('--tier', default='quick'); ap.add_argument('--suite', action='store_true')
ap.add_argument('--keep', action='store_true')
a = ap.parse_args()
d = os.path.abspath(a.dir)
meta = json.load(open(os.path.join(d, 'meta.json')))
pid = meta.get('property', 'C00')
tag = '%s_%s_%d' % (pid, os.path.basename(d), os.getpid())
wt = '/tmp/sv/' + tag
os.makedirs('/tmp/sv', exist_ok=True)
subprocess.run(['git', '-C', '/repo', 'worktree', 'add', '-q', '--detach', wt, 'HEAD'], check=True)
res = {'dir': d, 'property': pid}
env = dict(os.environ, MPLBACKEND='Agg', PYTHONPATH=wt, PYTHONWARNINGS='ignore')
try:
    def demo():
        try:
            r = subprocess.run(['/venv/bin/python', os.path.join(d, 'demo.py')], cwd=wt, env=env, capture_output=True, text=True, timeout=900)
            return r.returncode
        except subprocess.TimeoutExpired:
            return 'timeout'
    res['demo_clean'] = demo()
    r = subprocess.run(['git', '-C', wt, 'apply', os.path.join(d, 'patch.diff')], capture_output=True, text=True)
    res['apply'] = r.returncode
    if r.returncode:
        res['apply_err'] = r.stderr[-300:]
    else:
        res['files'] = subprocess.run(['git', '-C', wt, 'diff', '--stat'], capture_output=True, text=True).stdout.strip().splitlines()[-1:]
        res['demo_mutant'] = demo()
        checks = ([] if a.checks == 'none' else a.checks.split(',') if a.checks else [pid])
        res['checks'] = {}
        for c in checks:
            out = '/tmp/sv/out_' + tag
            e2 = dict(os.environ, EON_REPO=wt, EON_OUT=out)
            t = time.time()
            try:
                rr = subprocess.run(['/verif/check', c, '--tier', a.tier], env=e2, capture_output=True, text=True, timeout=3600)
                sigs = [l.strip() for l in rr.stdout.splitlines() if 'signature=' in l][:3]
                res['checks'][c] = {'exit': rr.returncode, 's': round(time.time() - t, 1), 'sigs': sigs,
                                    'harness': [l[:200] for l in rr.stdout.splitlines() if l.startswith('HARNESS')][:2]}
            except subprocess.TimeoutExpired:
                res['checks'][c] = {'exit': 'timeout'}
            shutil.rmtree(out, ignore_errors=True)
        if a.suite:
            t = time.time()
            junit = '/tmp/sv/junit_%s.xml' % tag
            subprocess.run(['/venv/bin/python', '-m', 'pytest', '-ra', '-q', '-p', 'no:cacheprovider', '--timeout=900', '--continue-on-collection-errors',
                            '--junitxml=' + junit, 'EoN/tests'], cwd=wt, env=env, capture_output=True, text=True)
            import xml.etree.ElementTree as ET
            b = json.load(open('/root/.vp/BASELINE.json'))
            ok = {}
            for tc in ET.parse(junit).getroot().iter('testcase'):
                ok[tc.get('classname') + '::' + tc.get('name')] = not any(ch.tag in ('failure', 'error') for ch in tc)
            res['suite_broken'] = [n for n in b['stable_pass'] if not ok.get(n)]
            res['suite_s'] = round(time.time() - t)
            os.remove(junit)
finally:
    if not a.keep:
        subprocess.run(['git', '-C', '/repo', 'worktree', 'remove', '--force', wt])
print(json.dumps(res))
