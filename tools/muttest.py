#!/venv/bin/python
"""Sensitivity helper: apply a textual mutation (or a patch file) to a scratch copy of /repo's EoN package and
run checks against it.  Nothing is written to /repo; outputs go to a scratch dir.

  tools/muttest.py NAME FILE 'old' 'new' ID [ID...]        (FILE relative to EoN/, first occurrence unless --all)
  tools/muttest.py NAME --patch file.diff ID [ID...]
"""
import os, sys, shutil, subprocess, time
args = sys.argv[1:]
name = args.pop(0)
root = '/tmp/eonmut/%s' % name
shutil.rmtree(root, ignore_errors=True)
os.makedirs(root)
shutil.copytree('/repo/EoN', root + '/EoN', ignore=shutil.ignore_patterns('__pycache__', 'tests'))
if args[0] == '--patch':
    patch = os.path.abspath(args[1]); args = args[2:]
    r = subprocess.run(['patch', '-p1', '-d', root, '-i', patch], capture_output=True, text=True)
    if r.returncode: print(r.stdout, r.stderr); sys.exit(3)
else:
    f, old, new = args[0], args[1], args[2]; args = args[3:]
    allocc = False
    if args and args[0] == '--all': allocc = True; args = args[1:]
    p = root + '/EoN/' + f
    s = open(p).read()
    if old not in s: print('pattern not found'); sys.exit(3)
    s = s.replace(old, new) if allocc else s.replace(old, new, 1)
    open(p, 'w').write(s)
env = dict(os.environ, EON_REPO=root, EON_OUT=root + '/out')
rc_all = {}
for cid in args:
    t = time.time()
    try:
      r = subprocess.run(['/verif/check', cid] + (['--tier', os.environ['TIER']] if 'TIER' in os.environ else []), env=env, capture_output=True, text=True, timeout=int(os.environ.get('MUT_TIMEOUT', '900')))
    except subprocess.TimeoutExpired:
      print('%s %s TIMEOUT' % (name, cid)); subprocess.run(['pkill', '-f', 'EON_REPO=%s' % root]); continue
    lines = [l for l in r.stdout.splitlines() if l.startswith(('VIOLATION', '  sub=', 'HARNESS', 'KNOWN'))][:6]
    print('%s %s exit=%d %.1fs' % (name, cid, r.returncode, time.time() - t))
    for l in lines: print('   ', l[:300])
    if r.returncode not in (0, 1): print(r.stdout[-1500:], r.stderr[-1500:])
    rc_all[cid] = r.returncode
shutil.rmtree(root, ignore_errors=True)
