#!/opt/veriftools/pyvenv/bin/python
"""Validate MANIFEST.json and every evidence file against the schemas (run under the tooling venv: jsonschema)."""
import json, glob, sys, jsonschema
ok = True
try:
    jsonschema.validate(json.load(open('/verif/MANIFEST.json')), json.load(open('/root/.vp/MANIFEST.schema.json')))
    print('MANIFEST ok')
except Exception as e:
    ok = False; print('MANIFEST INVALID', e)
sch = json.load(open('/root/.vp/EVIDENCE.schema.json'))
m = json.load(open('/verif/MANIFEST.json'))
for c in m['checks']:
    f = '/verif/' + c['evidence_file']
    try:
        ev = json.load(open(f))
        jsonschema.validate(ev, sch)
        assert ev['level'] == c['level_claimed']['category'], 'level mismatch'
        print(c['property_id'], 'ok', ev['tier'], ev['coverage']['evaluations'], ev['coverage']['distinct_nontrivial'], ev['wall_s'])
    except Exception as e:
        ok = False; print(c['property_id'], 'INVALID', str(e)[:300])
sys.exit(0 if ok else 1)
